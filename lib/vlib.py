"""Core of ./check: build, TLC model runs, spec->code replay, code->spec trace validation,
classification against KNOWN_FINDINGS.txt, evidence."""
import sys, os, json, time, subprocess, hashlib, shutil, re, fnmatch, glob
from concurrent.futures import ThreadPoolExecutor

ROOT = os.path.dirname(os.path.dirname(os.path.abspath(__file__)))
OUT = os.path.join(ROOT, "out")
SPEC = os.path.join(ROOT, "spec")
HARNESS = os.path.join(ROOT, "harness")
GV = os.path.join(OUT, "target", "release", "gv")
TLA_CP = "/opt/veriftools/tla/tla2tools.jar:/opt/veriftools/tla/CommunityModules-deps.jar"
KNOWN = os.path.join(ROOT, "KNOWN_FINDINGS.txt")
NPROC = int(os.environ.get("GV_NPROC", "0")) or os.cpu_count() or 8   # GV_NPROC: development aid to share the machine


class ToolError(Exception):
    pass


def log(*a):
    print(*a, file=sys.stderr, flush=True)


def sh(cmd, timeout=None, env=None, cwd=None, check=True, capture=True):
    e = dict(os.environ)
    os.makedirs(os.path.join(OUT, "tmp"), exist_ok=True)
    e.update({"CARGO_NET_OFFLINE": "true", "GV_TMP": os.path.join(OUT, "tmp")})
    if env:
        e.update(env)
    # every command runs in its own process group, and the whole group is killed when the command has ended or timed
    # out: tlapm leaves z3 back ends behind that spin forever, and a timed-out TLC must not survive its check
    import signal
    proc = subprocess.Popen(cmd, cwd=cwd, env=e, stdout=subprocess.PIPE if capture else None,
                            stderr=subprocess.STDOUT if capture else None, text=True, errors="replace",
                            start_new_session=True)
    try:
        out, _ = proc.communicate(timeout=timeout)
    except subprocess.TimeoutExpired:
        try:
            os.killpg(proc.pid, signal.SIGKILL)
        except OSError:
            pass
        proc.wait()
        raise ToolError("timeout: %s" % " ".join(cmd[:6]))
    finally:
        try:
            os.killpg(proc.pid, signal.SIGKILL)
        except OSError:
            pass
    p = subprocess.CompletedProcess(cmd, proc.returncode, out, None)
    if check and p.returncode != 0:
        raise ToolError("command failed (%d): %s\n%s" % (p.returncode, " ".join(cmd[:8]), (p.stdout or "")[-3000:]))
    return p


# ----------------------------------------------------------------------------------------------
# building (always from /repo's current working tree: the harness has a path dependency on it)
# ----------------------------------------------------------------------------------------------
def build_mock():
    """stand-in for wasm_bindgen (C17): two tiny crates compiled with rustc into /verif/out/mock"""
    d = os.path.join(OUT, "mock")
    os.makedirs(d, exist_ok=True)
    src = os.path.join(HARNESS, "mock")
    so, rlib = os.path.join(d, "libwasm_bindgen_macro.so"), os.path.join(d, "libwasm_bindgen.rlib")
    newest = max(os.path.getmtime(os.path.join(src, f)) for f in os.listdir(src))
    if os.path.exists(so) and os.path.exists(rlib) and min(os.path.getmtime(so), os.path.getmtime(rlib)) > newest:
        return
    sh(["rustc", "--edition", "2021", "--crate-type", "proc-macro", "--crate-name", "wasm_bindgen_macro",
        os.path.join(src, "wasm_bindgen_macro.rs"), "--out-dir", d], timeout=600)
    sh(["rustc", "--edition", "2021", "--crate-type", "rlib", "--crate-name", "wasm_bindgen",
        os.path.join(src, "wasm_bindgen.rs"), "--extern", "wasm_bindgen_macro=" + so, "--out-dir", d], timeout=600)


def build_harness():
    t = time.time()
    build_mock()
    lock = os.path.join(HARNESS, "Cargo.lock")
    if not os.path.exists(lock):
        shutil.copy("/repo/Cargo.lock", lock)
    sh(["cargo", "build", "--release", "--offline"], cwd=HARNESS, timeout=1500)
    if not os.path.exists(GV):
        raise ToolError("harness binary missing")
    return time.time() - t


CLI_BIN = os.path.join(OUT, "target_cli", "release", "grex")


def build_cli():
    """the command-line binary, built from /repo's working tree into /verif/out (hooks off: it is the shipped tool)"""
    sh(["cargo", "build", "--release", "--offline", "--manifest-path", "/repo/Cargo.toml",
        "--target-dir", os.path.join(OUT, "target_cli")], timeout=1500, cwd=OUT)
    if not os.path.exists(CLI_BIN):
        raise ToolError("grex binary missing")
    return CLI_BIN


PY_DIR = os.path.join(OUT, "py")


def build_py():
    """the Python extension module, built from /repo's working tree with --features python"""
    tdir = os.path.join(OUT, "target_py")
    sh(["cargo", "build", "--release", "--offline", "--lib", "--features", "python", "--manifest-path", "/repo/Cargo.toml",
        "--target-dir", tdir], timeout=1500, cwd=OUT)
    so = os.path.join(tdir, "release", "libgrex.so")
    if not os.path.exists(so):
        raise ToolError("python extension missing")
    os.makedirs(PY_DIR, exist_ok=True)
    shutil.copy(so, os.path.join(PY_DIR, "grex.so"))
    return PY_DIR


def run_py_driver(scen, res):
    p = sh(["python3", os.path.join(ROOT, "drivers", "py_driver.py"), scen, res], env={"PYTHONPATH": build_py()},
           timeout=3000, check=False)
    if p.returncode != 0 or not os.path.exists(res):
        raise ToolError("python driver failed: %s" % (p.stdout or "")[-2000:])


# ----------------------------------------------------------------------------------------------
# TLC
# ----------------------------------------------------------------------------------------------
RE_STATES = re.compile(r"(\d+) states generated, (\d+) distinct states found")


def tlc_raw(module, cfg, metadir, workers=1, xmx="3g", timeout=3000, env=None, extra=None, deque=False, light=False):
    # TLC / SANY leave a temporary directory behind per run: keep them out of /tmp and remove them afterwards
    jtmp = metadir.rstrip("/") + "_jtmp"
    shutil.rmtree(jtmp, ignore_errors=True)
    os.makedirs(jtmp, exist_ok=True)
    jopts = "-Xss1g -Djava.io.tmpdir=" + jtmp + (" -Dtlc2.tool.queue.IStateQueue=StateDeque" if deque else "")
    e = {"JAVA_TOOL_OPTIONS": jopts}
    if env:
        e.update(env)
    shutil.rmtree(metadir, ignore_errors=True)
    gc = ["-XX:+UseSerialGC", "-XX:TieredStopAtLevel=1"] if light else ["-XX:+UseParallelGC", "-XX:ParallelGCThreads=4"]
    cmd = ["java"] + gc + ["-Xmx" + xmx, "-cp", TLA_CP, "tlc2.TLC",
           "-workers", str(workers), "-metadir", metadir, "-cleanup", "-noGenerateSpecTE", "-checkpoint", "0",
           "-config", cfg if os.path.isabs(cfg) else os.path.join(SPEC, cfg), os.path.join(SPEC, module)] + (extra or [])
    try:
        p = sh(cmd, timeout=timeout, env=e, cwd=SPEC, check=False)
    finally:
        shutil.rmtree(metadir, ignore_errors=True)
        shutil.rmtree(jtmp, ignore_errors=True)
    return p.returncode, p.stdout


def parse_json_prints(text):
    """TLC prints a string value as "…" with inner quotes escaped."""
    out = []
    for line in text.splitlines():
        line = line.strip()
        if line.startswith('"{') and line.endswith('}"'):
            try:
                out.append(json.loads(json.loads(line)))
            except Exception:
                pass
    return out


def run_monitor(trace, tag):
    rc, text = tlc_raw("Monitor.tla", "Monitor.cfg", os.path.join(OUT, "meta", "%s_%d" % (tag, os.getpid())), workers=1, xmx="3g",
                       env={"TRACE": trace}, deque=True, timeout=3400, light=True)
    objs = parse_json_prints(text)
    verdicts = [o for o in objs if "verdict" in o]
    counters = {}
    accepted = None
    for o in objs:
        if "counters" in o:
            counters = o["counters"]
        if "accepted" in o:
            accepted = o
    m = RE_STATES.search(text)
    states = int(m.group(2)) if m else 0
    gen = int(m.group(1)) if m else 0
    if accepted is None or not accepted.get("accepted"):
        tail = "\n".join(text.splitlines()[-25:])
        raise ToolError("monitor did not accept trace %s: %s\n%s" % (trace, accepted, tail))
    return {"verdicts": verdicts, "counters": counters, "states": states, "transitions": max(gen - 1, 0)}


def run_model(name, constants=None, invariants=None, workers=None, timeout=3000, xmx="8g", env=None, tag=None, spec="Spec",
              simulate=None, properties=None):
    """Bounded model MC_<name>.tla with a generated configuration. Returns states, transitions,
    JSON objects printed by the model (REPLAY lines), violated invariants, per-action coverage."""
    tag = tag or name
    os.makedirs(os.path.join(OUT, "meta"), exist_ok=True)
    # (the process id keeps checks of different properties apart when they run at the same time)
    cfgp = os.path.join(OUT, "meta", "MC_%s_%d.cfg" % (tag, os.getpid()))
    with open(cfgp, "w") as f:
        f.write("SPECIFICATION %s\n" % spec)
        if constants:
            f.write("CONSTANTS\n" + "".join("  %s = %s\n" % (k, v) for k, v in constants.items()))
        if invariants:
            f.write("INVARIANTS " + " ".join(invariants) + "\n")
        if properties:
            f.write("PROPERTIES " + " ".join(properties) + "\n")
        f.write("CHECK_DEADLOCK FALSE\n")
    rc, text = tlc_raw("MC_%s.tla" % name, cfgp, os.path.join(OUT, "meta", "mc_%s_%d" % (tag, os.getpid())),
                       workers=workers or min(NPROC, 8), xmx=xmx, timeout=timeout, env=env,
                       extra=(["-simulate", "num=%d" % simulate[0], "-depth", str(simulate[1])] if simulate else None))
    try:
        os.remove(cfgp)
    except OSError:
        pass
    m = RE_STATES.search(text)
    if not m and simulate:
        # simulation mode reports "The number of states generated: N"
        ms = re.search(r"The number of states generated: (\d+)", text)
        if ms:
            m = re.match(r"(\d+) (\d+)", "%s %s" % (ms.group(1), ms.group(1)))
    if not m and re.search(r"Invariant \S+ is violated by the initial state", text):
        # refuted while the initial states were still being computed: TLC prints no state count
        m = re.match(r"(\d+) (\d+)", "1 1")
    if not m:
        raise ToolError("TLC model %s produced no state count:\n%s" % (name, text[-3000:]))
    objs = parse_json_prints(text)
    ok = "No error has been found" in text or (simulate is not None and "Error" not in text and not re.search(r"is violated", text))
    violated = re.findall(r"Invariant (\S+) is violated", text) + re.findall(r"property (\S+) was violated", text) + \
        (["<temporal property>"] if "Temporal properties were violated" in text else [])
    if not ok and not violated:
        raise ToolError("TLC model %s failed:\n%s" % (name, "\n".join(l for l in text.splitlines() if not l.startswith('"{'))[-3000:]))
    cov = {}
    for mm in re.finditer(r"<(\w+) line \d+, col \d+ to line \d+, col \d+ of module (\w+)>: (\d+):(\d+)", text):
        cov[mm.group(1)] = cov.get(mm.group(1), 0) + int(mm.group(4))
    return {"name": tag, "ok": ok, "violated": violated, "states": int(m.group(2)),
            "transitions": max(int(m.group(1)) - 1, 0), "objs": objs, "coverage": cov, "constants": constants or {}}


# ----------------------------------------------------------------------------------------------
# code -> spec : drivers + monitor
# ----------------------------------------------------------------------------------------------
def gen_traces(driver, tier, seed, tag, shards=None):
    d = os.path.join(OUT, "traces", tag)
    shutil.rmtree(d, ignore_errors=True)
    os.makedirs(d, exist_ok=True)
    shards = shards or min(14, NPROC)
    if driver.startswith("front:"):
        kind = driver.split(":", 1)[1]
        cmd = [GV, "gen-front", "--kind", kind, "--tier", tier, "--seed", str(seed), "--out", d, "--shards", str(shards)]
        if kind == "cli":
            cmd += ["--cli-bin", build_cli()]
        if kind == "py":
            sh([GV, "gen-front", "--kind", "py-plan", "--tier", tier, "--seed", str(seed), "--out", d], timeout=3000)
            run_py_driver(os.path.join(d, "py_scen.json"), os.path.join(d, "py_res.json"))
            cmd = [GV, "gen-front", "--kind", "py-merge", "--tier", tier, "--seed", str(seed), "--out", d, "--shards", str(shards)]
        if kind.startswith("replay="):
            planf = kind.split("=", 1)[1]
            entries = [json.loads(x) for x in open(planf).read().splitlines() if x.strip()]
            if any(e.get("kind") == "hist-py" for e in entries):
                # (re-)execute the Python histories in CPython; results travel with the plan
                pys = [e for e in entries if e.get("kind") == "hist-py"]
                scen, resf = os.path.join(d, "one_scen.json"), os.path.join(d, "one_res.json")
                json.dump([e["plan"] for e in pys], open(scen, "w"))
                run_py_driver(scen, resf)
                for e, r in zip(pys, json.load(open(resf))):
                    e["results"] = r
                with open(planf, "w") as f:
                    for e in entries:
                        f.write(json.dumps(e) + "\n")
            cmd = [GV, "gen-front", "--kind", "replay", "--plan", kind.split("=", 1)[1], "--out", d, "--shards", "1",
                   "--cli-bin", build_cli()]
        sh(cmd, timeout=3000)
    else:
        sh([GV, "gen", "--driver", driver, "--tier", tier, "--seed", str(seed), "--out", d, "--shards", str(shards)],
           timeout=3000)
    stats = json.loads(open(os.path.join(d, "stats.json")).read())
    return d, stats


def validate_dir(d, tag):
    traces = sorted(t for t in glob.glob(os.path.join(d, "trace_*.ndjson")) if os.path.getsize(t) > 0)
    results = []
    with ThreadPoolExecutor(max_workers=min(14, NPROC)) as ex:
        futs = [ex.submit(run_monitor, t, "%s_%d" % (tag, i)) for i, t in enumerate(traces)]
        for f in futs:
            results.append(f.result())
    agg = {"verdicts": [], "counters": {}, "states": 0, "transitions": 0}
    for r in results:
        agg["verdicts"] += r["verdicts"]
        agg["states"] += r["states"]
        agg["transitions"] += r["transitions"]
        for k, v in r["counters"].items():
            agg["counters"][k] = agg["counters"].get(k, 0) + v
    return agg


def load_index(d):
    idx = {}
    p = os.path.join(d, "index.ndjson")
    with open(p) as f:
        for line in f:
            o = json.loads(line)
            if "g" in o:
                idx[("g", o["g"])] = o
            else:
                idx[("h", o["h"])] = o
    return idx


# ----------------------------------------------------------------------------------------------
# known findings
# ----------------------------------------------------------------------------------------------
def load_known():
    known = []
    if os.path.exists(KNOWN):
        for line in open(KNOWN):
            line = line.strip()
            m = re.match(r"known:\s+property=(\S+)\s+key=(\S+)\s+(.*)", line)
            if m:
                known.append({"property": m.group(1), "key": m.group(2), "what": m.group(3)})
    return known


def verdict_key(v):
    k = "%s/first=%s" % (v["verdict"], v.get("first", ""))
    if v.get("widen", 0):
        k += "/widen"
    if v.get("explained"):
        k += "/explained=" + v["explained"]
    return k


def match_known(known, prop, key, scenario_key=None):
    for k in known:
        if k["property"] != prop:
            continue
        if fnmatch.fnmatchcase(key, k["key"]):
            return k
        if scenario_key and fnmatch.fnmatchcase(scenario_key, k["key"]):
            return k
    return None


# ----------------------------------------------------------------------------------------------
# replay files
# ----------------------------------------------------------------------------------------------
def write_replay(prop, kind, payload):
    d = os.path.join(OUT, "replay")
    os.makedirs(d, exist_ok=True)
    body = json.dumps(payload, ensure_ascii=True, sort_keys=True)
    h = hashlib.sha1(body.encode()).hexdigest()[:12]
    p = os.path.join(d, "%s-%s-%s.json" % (prop, kind, h))
    with open(p, "w") as f:
        f.write(body)
    return p


# ----------------------------------------------------------------------------------------------
# one property
# ----------------------------------------------------------------------------------------------
class Result:
    def __init__(self, prop, tier, seed):
        self.prop, self.tier, self.seed = prop, tier, seed
        self.violations = []     # (key, replay path, text)
        self.known_hits = {}     # finding text -> count
        self.notes = []
        self.states = 0
        self.transitions = 0
        self.traces = 0
        self.evaluations = 0
        self.nontrivial = 0
        self.samples = []
        self.counters = {}
        self.models = []
        self.drivers = []
        self.exhaustive = False
        self.rule = ""
        self.extra = {}

    def add_violation(self, key, replay, text):
        if len(self.violations) < 400:
            self.violations.append((key, replay, text))


CLASS_FLAG_NAMES = ("digit", "nondigit", "space", "nonspace", "word", "nonword")


def concerns(prop, v, driver, idx):
    """Does verdict v count against `prop`?  The monitor names the properties itself; one attribution depends
    on what was driven: C09 also says that 'a converted pattern always still matches the character it was
    derived from', so in the class sweep (one character, or one character + modifier, class options only) a
    soundness verdict (the output does not accept its only test case, is invalid, or the build panicked) is a
    C09 verdict too."""
    props = v.get("props", [])
    if prop in props:
        return True
    if prop == "C09" and str(driver).startswith("class-sweep") and "C01" in props and "h" not in v:
        g = idx.get(("g", v.get("g"))) or {}
        rr = [r for r in g.get("runs", []) if r.get("r") == v.get("r")]
        return bool(rr) and any(rr[0].get("cfg", {}).get(f) is True for f in CLASS_FLAG_NAMES)
    return False


def classify_trace_verdicts(res, known, verdicts, idx, driver):
    """Keep the verdicts that concern res.prop; split into known findings / violations."""
    mine = [v for v in verdicts if concerns(res.prop, v, driver, idx)]
    tool = [v for v in verdicts if "TOOL" in v.get("props", [])]
    for v in tool[:20]:
        g = idx.get(("g", v["g"])) or idx.get(("h", v.get("h"))) or {}
        res.notes.append("model-fidelity note %s on %s" % (v["verdict"], json.dumps(g.get("tcs", g.get("kind")), ensure_ascii=True)[:200]))
    res.extra["model_fidelity_notes"] = res.extra.get("model_fidelity_notes", 0) + len(tool)
    seen = {}
    for v in mine:
        key = verdict_key(v)
        front = v.get("g", 0) == 0 and "h" in v
        g = (idx.get(("h", v["h"])) if front else idx.get(("g", v["g"]))) or {}
        k = match_known(known, res.prop, key)
        if k:
            t = "%s (key %s)" % (k["what"], k["key"])
            res.known_hits[t] = res.known_hits.get(t, 0) + g.get("mult", 1)
            continue
        sig = (key, v.get("h") if front else v["g"])
        if sig in seen:
            continue
        seen[sig] = True
        if front:
            payload = {"property": res.prop, "verdict": v, "key": key, "driver": driver, "seed": res.seed,
                       "front": g}
            path = write_replay(res.prop, v["verdict"], payload)
            text = "%s (step %s) in scenario %s" % (key, v.get("k"), json.dumps(g, ensure_ascii=True)[:600])
        else:
            runs = {r["r"]: r for r in g.get("runs", [])}
            rr = runs.get(v["r"], {})
            payload = {"property": res.prop, "verdict": v, "key": key, "driver": driver, "seed": res.seed,
                       "plan": {"tcs": g.get("tcs"), "tag": g.get("tag", ""), "cps": True,
                                "runs": [{"cfg": r["cfg"], "input": r["input"], "schedule": r.get("schedule")}
                                         for r in g.get("runs", [])]},
                       "run": rr}
            path = write_replay(res.prop, v["verdict"], payload)
            text = "%s on test cases %s settings %s -> %s" % (
                key, json.dumps(g.get("tcs"), ensure_ascii=True)[:300],
                json.dumps({k2: v2 for k2, v2 in rr.get("cfg", {}).items() if v2 is True or (v2 is not False and v2 != 1)}),
                json.dumps(rr.get("out", rr.get("panic", "")), ensure_ascii=True)[:300])
        res.add_violation(key, path, text)


def run_driver(res, known, driver, tier, seed):
    tag = "%s_%s" % (res.prop, driver.replace(":", "_").replace("/", "_"))
    t0 = time.time()
    d, stats = gen_traces(driver, tier, seed, tag)
    t1 = time.time()
    agg = validate_dir(d, tag)
    t2 = time.time()
    idx = load_index(d)
    classify_trace_verdicts(res, known, agg["verdicts"], idx, driver)
    res.states += agg["states"]
    res.transitions += agg["transitions"]
    res.traces += stats["distinct_groups"]
    res.evaluations += stats["builds"]
    for k, v in agg["counters"].items():
        res.counters[k] = res.counters.get(k, 0) + v
    for n in stats.get("notes", [])[:20]:
        res.notes.append("harness note: " + n[:300])
    if any("PROJECTION-SELF-CHECK-FAILED" in n for n in stats.get("notes", [])):
        raise ToolError("projection self-check failed: %s" % stats["notes"][:3])
    res.drivers.append({"driver": driver, "plans": stats["plans"], "groups": stats["groups"],
                        "distinct_groups": stats["distinct_groups"], "builds": stats["builds"],
                        "events": stats["events"], "gen_s": round(t1 - t0, 1), "monitor_s": round(t2 - t1, 1),
                        "verdicts_all_properties": len(agg["verdicts"])})
    # a few samples
    if len(res.samples) < 6:
        for g in sorted(idx)[:2]:
            o = idx[g]
            if g[0] == "g":
                res.samples.append({"driver": driver, "test_cases": o["tcs"][:6],
                                    "runs": [{"settings": {k: v for k, v in r["cfg"].items() if v is True or (v is not False and v != 1)},
                                              "out": r.get("out", r.get("panic"))} for r in o["runs"][:3]]})
            else:
                res.samples.append({"driver": driver, "scenario": json.loads(json.dumps(o)[:1500] + '"}') if False else {k: (v if len(json.dumps(v)) < 400 else "...") for k, v in o.items()}})
    if not os.environ.get("VERIF_KEEP"):
        shutil.rmtree(d, ignore_errors=True)
    return stats, agg


def finish(res, t0, level="model_checking", assumptions=None):
    # stdout protocol
    for t, n in sorted(res.known_hits.items()):
        print("KNOWN-FINDING: property=%s %s [%d occurrences this run]" % (res.prop, t, n))
    shown = set()
    nshown = 0
    for key, path, text in res.violations:
        if key in shown and nshown >= 3:
            continue
        shown.add(key)
        nshown += 1
        if nshown > 12:
            break
        print("VIOLATION property=%s replay=%s" % (res.prop, path))
        print("  detail: " + text)
    ev = {
        "property_id": res.prop, "tier": res.tier, "seed": res.seed, "level": level,
        "coverage": {
            "states": res.states, "transitions": res.transitions,
            "traces_validated_against_impl": res.traces,
            "evaluations": res.evaluations, "distinct_nontrivial": res.nontrivial,
            "rule": res.rule, "samples": res.samples[:8] or [{"note": "no samples"}],
            "exhaustive": res.exhaustive,
            "models": res.models, "drivers": res.drivers, "monitor_counters": res.counters,
            "known_findings_seen": res.known_hits, "notes": res.notes[:40],
        },
        "assumptions": assumptions or [],
        "wall_s": round(time.time() - t0, 1),
        "violations": len(res.violations),
    }
    ev["coverage"].update(res.extra)
    os.makedirs(os.path.join(ROOT, "evidence"), exist_ok=True)
    with open(os.path.join(ROOT, "evidence", res.prop + ".json"), "w") as f:
        json.dump(ev, f, indent=1, ensure_ascii=True)
    return 1 if res.violations else 0


def main(argv):
    import props
    if not argv:
        print(__doc__)
        return 2
    try:
        if argv[0] == "setup":
            return props.setup()
        if argv[0] == "selftest":
            return props.selftest()
        if argv[0] == "--replay":
            return props.replay(argv[1])
        if argv[0] == "dev-driver":
            return props.dev_driver(argv[1], *(argv[2:3]))
        prop = argv[0]
        tier = os.environ.get("VERIF_TIER", "quick")
        seed = int(os.environ.get("VERIF_SEED", "0") or 0)
        i = 1
        while i < len(argv):
            if argv[i] == "--tier":
                tier = argv[i + 1]; i += 2
            elif argv[i] == "--seed":
                seed = int(argv[i + 1]); i += 2
            else:
                i += 1
        return props.check(prop, tier, seed)
    except ToolError as e:
        log("TOOL ERROR: %s" % e)
        return 2
    except Exception:  # never let a defect of the machinery look like a verdict (exit 1 is reserved for VIOLATION)
        import traceback
        log("TOOL ERROR (unexpected exception):\n" + traceback.format_exc())
        return 2

#!/bin/sh
# Development aid (not used by any registered check): a private copy of /verif bound to a scratch worktree of /repo's
# HEAD, so that the machinery can be exercised while /repo itself is being patched by a mutant evaluation.
#   lib/devcopy.sh [dir]     (default /tmp/gvdev; remove the directory and `git -C /repo worktree prune` afterwards)
set -e
D=${1:-/tmp/gvdev}
mkdir -p "$D"
if [ ! -d "$D/repo" ]; then git -C /repo worktree add --detach "$D/repo" HEAD >/dev/null; fi
mkdir -p "$D/verif"
rsync -a --delete --exclude out --exclude .git --exclude seeded --exclude evidence /verif/ "$D/verif/"
mkdir -p "$D/verif/out" "$D/verif/evidence"
sed -i "s#path = \"/repo\"#path = \"$D/repo\"#" "$D/verif/harness/Cargo.toml"
sed -i "s#\"/repo/#\"$D/repo/#g" "$D/verif/lib/vlib.py"
echo "$D/verif"

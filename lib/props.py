"""Per-property plans: which bounded models TLC explores, which drivers exercise the real code,
and how the evidence is summarised."""
import os, sys, json, time, shutil, subprocess
import vlib
from vlib import ToolError, Result, log

# driver lists per property (the drivers scale with the tier themselves)
PLAN = {
    "C01": {"drivers": ["small", "adversarial"], "thorough_drivers": ["icase-sweep"], "models": []},
    "C02": {"drivers": ["small-default", "near-miss"], "models": []},
    "C03": {"drivers": ["classes"], "models": []},
    "C04": {"drivers": ["icase-words", "icase-sweep"], "models": []},
    "C05": {"drivers": ["small-rep", "repeats"], "models": []},
    "C06": {"drivers": ["presentation"], "models": []},
    "C07": {"drivers": ["lattice", "front:hist"], "models": []},
    "C08": {"drivers": ["small-anchors", "anchors"], "models": []},
    "C09": {"drivers": ["class-sweep"], "models": []},
    "C10": {"drivers": ["orders", "front:hist"], "models": []},
    "C11": {"drivers": ["escape-words", "escape-sweep"], "models": []},
    "C12": {"drivers": ["front:cli"], "models": []},
    "C13": {"drivers": ["thresholds"], "models": []},
    "C14": {"drivers": ["front:py"], "models": []},
    "C15": {"drivers": ["color"], "models": []},
    "C16": {"drivers": ["small", "stages"], "models": []},
    "C17": {"drivers": ["front:wasm"], "models": []},
}

ASSUME = [
    "TLC 1.8.0 and the CommunityModules JSON reader evaluate the specification correctly",
    "regex-syntax 0.8.4 (parser, Unicode tables) and regex 1.10.6 define what a pattern means",
    "the harness projection of Unicode to atoms is correct (self-checked every group: disjoint, covering, every set a union of atoms)",
    "the cfg(grex_verif) hooks are read-only snapshots of the real data structures",
]


def setup():
    t = vlib.build_harness()
    log("harness built in %.1fs" % t)
    # parse every specification module
    for f in sorted(os.listdir(vlib.SPEC)):
        if f.endswith(".tla"):
            p = vlib.sh(["java", "-cp", vlib.TLA_CP, "tla2sany.SANY", os.path.join(vlib.SPEC, f)], cwd=vlib.SPEC,
                        check=False, timeout=300)
            if "Semantic errors" in p.stdout or "Parse Error" in p.stdout or p.returncode != 0:
                log(p.stdout[-2000:])
                raise ToolError("SANY rejects " + f)
    log("specification parses")
    return 0


def check(prop, tier, seed):
    if prop not in PLAN:
        log("unknown or unclaimed property " + prop)
        return 2
    t0 = time.time()
    plan = PLAN[prop]
    vlib.build_harness()
    known = vlib.load_known()
    res = Result(prop, tier, seed)
    for m in plan.get("models", []):
        run_model_and_replay(res, known, m, tier, seed)
    drivers = list(plan.get("drivers", []))
    if tier == "thorough":
        drivers += plan.get("thorough_drivers", [])
    for d in drivers:
        vlib.run_driver(res, known, d, tier, seed)
    c = res.counters
    res.nontrivial = c.get("judged", 0)
    res.rule = ("evaluations = builds of the real library executed; a case is one (test-case set, settings, list order) run "
                "whose stage artefacts and output were judged by the TLA+ monitor; non-trivial = distinct abstract runs "
                "(after projection to atoms and de-duplication of identical traces) whose languages were computed and compared")
    return vlib.finish(res, t0, assumptions=ASSUME)


def run_model_and_replay(res, known, m, tier, seed):
    raise ToolError("no models yet")


def replay(path):
    payload = json.load(open(path))
    prop = payload["property"]
    vlib.build_harness()
    d = os.path.join(vlib.OUT, "replay_run")
    shutil.rmtree(d, ignore_errors=True)
    os.makedirs(d)
    planf = os.path.join(d, "plan.ndjson")
    if "front" in payload:
        with open(planf, "w") as f:
            f.write(json.dumps(payload["front"]) + "\n")
        tdir, stats = vlib.gen_traces("front:replay=" + planf, "quick", payload.get("seed", 0), "replay_one", shards=1)
    else:
        with open(planf, "w") as f:
            f.write(json.dumps(payload["plan"]) + "\n")
        tdir, stats = vlib.gen_traces("file:" + planf, "quick", payload.get("seed", 0), "replay_one", shards=1)
    agg = vlib.validate_dir(tdir, "replay_one")
    idx = vlib.load_index(tdir)
    mine = [v for v in agg["verdicts"] if prop in v.get("props", [])]
    for key, g in idx.items():
        if key[0] == "g":
            for r in g["runs"]:
                print("run %d settings=%s -> %s" % (r["r"], json.dumps({k: v for k, v in r["cfg"].items() if v is True or (v is not False and v != 1)}),
                                                    json.dumps(r.get("out", r.get("panic")), ensure_ascii=True)))
        else:
            print("scenario: %s" % json.dumps(g, ensure_ascii=True)[:2000])
    known = vlib.load_known()
    bad = 0
    for v in mine:
        k = vlib.match_known(known, prop, vlib.verdict_key(v))
        print("verdict%s: %s" % (" (known finding)" if k else "", json.dumps(v)))
        if not k:
            bad += 1
    if bad:
        print("VIOLATION property=%s replay=%s" % (prop, path))
        return 1
    print("no new verdict for %s on this scenario" % prop)
    return 0


def selftest():
    raise ToolError("selftest not built yet")


def dev_driver(name, tier="quick", seed=1):
    """developer helper: run one driver through the monitor and summarise ALL verdicts"""
    vlib.build_harness()
    t0 = time.time()
    d, stats = vlib.gen_traces(name, tier, seed, "dev_" + name)
    t1 = time.time()
    agg = vlib.validate_dir(d, "dev_" + name)
    t2 = time.time()
    idx = vlib.load_index(d)
    kinds = {}
    ex = {}
    for v in agg["verdicts"]:
        k = (v["verdict"], ",".join(v["props"]), v.get("explained", ""), v.get("first", ""))
        kinds[k] = kinds.get(k, 0) + 1
        if k not in ex:
            if v.get("g", 0) == 0 and "h" in v:
                ex[k] = (idx.get(("h", v["h"])), v.get("k"))
            else:
                g = idx[("g", v["g"])]
                rr = [r for r in g["runs"] if r["r"] == v["r"]][0]
                ex[k] = (g["tcs"], {a: b for a, b in rr["cfg"].items() if b is not False and b != 1 or b is True}, rr.get("out", rr.get("panic")))
    print("driver %s: gen %.1fs monitor %.1fs builds %d events %d groups %d states %d" % (
        name, t1 - t0, t2 - t1, stats["builds"], stats["events"], stats["distinct_groups"], agg["states"]))
    print("  counters:", json.dumps(agg["counters"]))
    for k, n in sorted(kinds.items()):
        print("  %6d %s" % (n, k))
        if k[2] == "":
            print("         e.g. %s" % json.dumps(ex[k], ensure_ascii=True)[:400])
    for n in stats["notes"][:5]:
        print("  note:", n[:300])
    return 0

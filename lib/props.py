"""Per-property plans: which bounded models TLC explores, which drivers exercise the real code,
and how the evidence is summarised."""
import os, sys, json, time, shutil, subprocess
import vlib
from vlib import ToolError, Result, log

# driver lists per property (the drivers scale with the tier themselves)
PLAN = {
    "C01": {"models": ["pipeline"], "drivers": ["small", "adversarial", "char-classes", "front:hist", "fallbacks"], "thorough_drivers": ["icase-sweep"]},
    "C02": {"models": ["pipeline", "lang", "tlaps-lang"], "drivers": ["small-default", "near-miss", "char-classes", "big"]},
    "C03": {"drivers": ["classes", "fallbacks", "front:hist"], "models": ["class"]},
    "C04": {"drivers": ["icase-words", "icase-sweep", "front:hist"], "models": ["fold"]},
    "C05": {"drivers": ["small-rep", "repeats", "fallbacks", "front:hist", "big"], "models": ["rep", "repconv"]},
    "C06": {"drivers": ["presentation", "char-classes", "front:hist", "fallbacks"], "models": ["lang", "verbose", "print"]},
    "C07": {"drivers": ["lattice", "char-classes", "front:hist", "front:large"], "models": ["builder-rust", "apalache-builder"]},
    "C08": {"models": ["pipeline"], "drivers": ["small-anchors", "anchors", "fallbacks", "front:hist", "front:cli"]},
    "C09": {"drivers": ["class-sweep"], "models": ["class"]},
    "C10": {"drivers": ["orders", "front:hist", "big"], "models": ["builder-rust"]},
    "C11": {"drivers": ["escape-words", "front:escsweep", "fallbacks", "front:hist"], "models": ["front-laws", "escape"]},
    "C12": {"drivers": ["front:cli"], "models": ["front-laws"]},
    "C13": {"drivers": ["thresholds", "front:hist"], "models": ["rep", "repconv"]},
    "C14": {"drivers": ["front:py"], "models": ["builder-py", "front-laws"]},
    "C15": {"drivers": ["color"], "models": ["front-laws", "print"]},
    "C16": {"models": ["pipeline", "rep", "segment"], "drivers": ["small", "stages", "fallbacks", "big", "segments", "char-classes"]},
    "C17": {"drivers": ["front:wasm"], "models": ["builder-wasm"]},
}

# which monitor counters count as "the property's antecedent was exercised"
NONTRIVIAL = {
    "C01": (["judged"], "runs whose output was parsed and whose language was compared with every test case"),
    "C02": (["judged"], "runs whose language was compared with the test-case set"),
    "C03": (["classconv"], "runs with at least one class option whose class-converted clusters were judged"),
    "C04": (["judged"], "case-insensitive runs whose language was compared with the fold-orbit language"),
    "C05": (["repconv"], "runs with repetition conversion on"),
    "C06": (["judged"], "runs of the verbose/capture/escape lattice with a judged language"),
    "C07": (["out", "hist-rust", "large"], "builds whose outcome (ok / panic / invalid) was judged, builder histories and large-input processes"),
    "C08": (["find-open"], "runs with at least one anchor disabled whose search spans were judged"),
    "C09": (["classconv"], "distinct abstract single-character cases under class options"),
    "C10": (["determinism-pairs", "hist-rust", "multi-threads", "multi-procs"], "pairs of runs with the same set and settings, histories, thread and process batches"),
    "C11": (["escape-form", "escsweep-blocks"], "runs with escaping on, and blocks of 2048 scalar values of the exhaustive sweep"),
    "C12": (["cli"], "command-line scenarios"),
    "C13": (["repconv"], "runs with repetition conversion on (plus every run without it for the no-braces half)"),
    "C14": (["hist-py"], "Python builder histories"),
    "C15": (["sgr"], "highlighted runs compared with their plain twin"),
    "C16": (["min", "trie", "expr", "final"], "stage snapshots judged"),
    "C17": (["hist-wasm"], "WebAssembly-wrapper histories"),
}

ASSUME = [
    "TLC 1.8.0 and the CommunityModules JSON reader evaluate the specification correctly",
    "regex-syntax 0.8.4 (parser, Unicode tables) and regex 1.10.6 define what a pattern means",
    "the harness projection of Unicode to atoms is correct (self-checked every group: disjoint, covering, every set a union of atoms)",
    "the cfg(grex_verif) hooks are read-only snapshots of the real data structures",
]


def setup():
    t = vlib.build_harness()
    log("harness built in %.1fs" % t)
    # parse every specification module
    for f in sorted(os.listdir(vlib.SPEC)):
        if f.endswith(".tla"):
            p = vlib.sh(["java", "-cp", vlib.TLA_CP, "tla2sany.SANY", os.path.join(vlib.SPEC, f)], cwd=vlib.SPEC,
                        check=False, timeout=300)
            if "Semantic errors" in p.stdout or "Parse Error" in p.stdout or p.returncode != 0:
                log(p.stdout[-2000:])
                raise ToolError("SANY rejects " + f)
    log("specification parses")
    return 0


def check(prop, tier, seed):
    if prop not in PLAN:
        log("unknown or unclaimed property " + prop)
        return 2
    t0 = time.time()
    plan = PLAN[prop]
    vlib.build_harness()
    known = vlib.load_known()
    res = Result(prop, tier, seed)
    for m in plan.get("models", []):
        run_model_and_replay(res, known, m, tier, seed)
    drivers = list(plan.get("drivers", []))
    if tier == "thorough":
        drivers += plan.get("thorough_drivers", [])
    for d in drivers:
        vlib.run_driver(res, known, d, tier, seed)
    c = res.counters
    if any(k.startswith("l2-") for k in c):
        res.extra["level2_conformance"] = {
            "tries_identical_to_transcription": c.get("l2-trie-same", 0), "tries_different": c.get("l2-trie-diff", 0),
            "minimised_automata_identical_to_transcription": c.get("l2-min-same", 0), "minimised_automata_different": c.get("l2-min-diff", 0),
            "expressions_identical_to_transcription": c.get("l2-expr-same", 0), "expressions_different": c.get("l2-expr-diff", 0),
            "note": "recorded automaton compared structurally with Algo!BuildTrie / Algo!Minimize on the recorded clusters (fidelity of Level 2, never a verdict)"}
    keys, what = NONTRIVIAL[prop]
    res.nontrivial = sum(c.get(k, 0) for k in keys)
    res.rule = ("evaluations = executions of the real code (library builds / CLI processes / binding calls); cases are generated by "
                "the drivers of DESIGN.md 4.5 from VERIF_SEED and every one is replayed by TLC as a behaviour of the TLA+ specification; "
                "identical abstract traces (after projection of Unicode to atoms) are validated once. distinct_nontrivial = number of "
                "DISTINCT abstract cases in which the property's antecedent was exercised: " + what +
                " (monitor counters: " + ", ".join(keys) + ")")
    return vlib.finish(res, t0, assumptions=ASSUME)


PIPE_INV = ["SortInv", "ClusterInv", "TrieInv", "MinInv", "ElimStepInv", "ElimInv", "FinalInv", "AnchorInv", "SymbolicInv", "Replay"]


def model_pipeline(res, known, tier, seed):
    """MC_Pipeline: the Level-2 transcription of the whole pipeline, as built and as designed;
    every behaviour is replayed on the real library and its trace validated."""
    thorough = tier == "thorough"
    runs = [("pipeline_asbuilt", {"MaxLen": 3, "MaxSize": 4 if thorough else 3, "NAtoms": 2, "DevFinals": "TRUE", "Sampled": "FALSE", "WithRep": "TRUE"}, None),
            ("pipeline_design", {"MaxLen": 3, "MaxSize": 3 if thorough else 2, "NAtoms": 2, "DevFinals": "FALSE", "Sampled": "FALSE", "WithRep": "FALSE"}, None),
            # beyond the exhaustive bounds: random inputs (tlc -simulate), every stage invariant on every state
            ("pipeline_sampled", {"MaxLen": 4, "MaxSize": 6, "NAtoms": 3, "DevFinals": "TRUE", "Sampled": "TRUE", "WithRep": "TRUE"},
             (3000 if thorough else 300, 40))]
    if thorough:
        runs.append(("pipeline_abc", {"MaxLen": 2, "MaxSize": 3, "NAtoms": 3, "DevFinals": "TRUE", "Sampled": "FALSE", "WithRep": "TRUE"}, None))
    plans = {}
    # liveness: every fair run terminates, stages only advance, earlier results are never rewritten
    m = vlib.run_model("Pipeline", constants={"MaxLen": 2, "MaxSize": 3 if thorough else 2, "NAtoms": 2, "DevFinals": "TRUE", "Sampled": "FALSE",
                                              "WithRep": "TRUE"}, invariants=["SortInv"], properties=["Terminates", "Progress", "WriteOnce"],
                       tag="pipeline_live", spec="FairSpec")
    if m["violated"]:
        raise ToolError("bounded model pipeline_live violates %s" % m["violated"])
    res.models.append({"model": "MC_Pipeline", "tag": "pipeline_live", "constants": m["constants"], "states": m["states"],
                       "transitions": m["transitions"], "temporal_properties": ["Terminates (under WF)", "Progress", "WriteOnce"], "violated": []})
    for tag, consts, sim in runs:
        m = vlib.run_model("Pipeline", constants=consts, invariants=PIPE_INV, tag=tag, simulate=sim, workers=(4 if sim else None))
        res.states += m["states"]
        res.transitions += m["transitions"]
        res.models.append({"model": "MC_Pipeline", "tag": tag, "constants": consts, "states": m["states"],
                           "transitions": m["transitions"], "behaviours": sum(1 for o in m["objs"] if "replay" in o),
                           "invariants": PIPE_INV, "violated": m["violated"], "action_coverage": m["coverage"]})
        if m["violated"]:
            # the specification itself (design or as-built transcription) violates an invariant: report it as a
            # violation of the property only if the real code exhibits it (decided by the replay below); here: tool error
            raise ToolError("bounded model %s violates %s" % (tag, m["violated"]))
        if consts["DevFinals"] == "TRUE":
            for o in m["objs"]:
                if o.get("replay") == "pipeline":
                    key = json.dumps(o["tcs"])
                    plans.setdefault(key, {"tcs": o["tcs"], "runs": [], "pred": []})
                    cfg = {"nostart": o["nostart"], "noend": o["noend"], "rep": o.get("rep", False)}
                    if cfg not in [r["cfg"] for r in plans[key]["runs"]]:
                        plans[key]["runs"].append({"cfg": cfg})
                        plans[key]["pred"].append(o["out"])
    replay_with_drift(res, known, list(plans.values()), tier, seed, "pipeline")
    res.exhaustive = True


def model_repconv(res, known, tier, seed):
    """MC_RepConv: the transcription of S5 on every word over {a,b} up to MaxLen x thresholds."""
    consts = {"MaxLen": 8 if tier == "thorough" else 6, "MaxThr": 3 if tier == "thorough" else 2}
    inv = ["ClusterLang", "Nested", "Thresholds", "Replay"]
    m = vlib.run_model("RepConv", constants=consts, invariants=inv, tag="repconv", workers=8)
    if m["violated"]:
        raise ToolError("bounded model repconv violates %s" % m["violated"])
    beh = [o for o in m["objs"] if o.get("replay") == "repconv"]
    res.states += m["states"]
    res.transitions += m["transitions"]
    res.models.append({"model": "MC_RepConv", "constants": consts, "states": m["states"], "transitions": m["transitions"],
                       "behaviours": len(beh), "invariants": inv})
    plans = {}
    for o in beh:
        p = plans.setdefault(o["w"], {"tcs": [o["w"]], "runs": [], "pred": []})
        p["runs"].append({"cfg": {"rep": True, "minrep": o["minrep"], "minsub": o["minsub"]}})
        p["pred"].append(o["out"])
    replay_with_drift(res, known, list(plans.values()), tier, seed, "repconv")


def replay_with_drift(res, known, plist, tier, seed, label, render=lambda x: x):
    """spec -> code: run every predicted behaviour on the real library (its trace is validated by the monitor) and
    measure Level-2 drift: does the transcription print exactly the string the code prints?
    plist: [{"tcs": [...], "runs": [{"cfg": {...}}...], "pred": [predicted output per run]}]"""
    d = os.path.join(vlib.OUT, "traces", res.prop + "_replay_" + label)
    shutil.rmtree(d, ignore_errors=True)
    os.makedirs(d)
    planf = os.path.join(d, "plans.ndjson")
    with open(planf, "w") as f:
        for p in plist:
            f.write(json.dumps({"tcs": p["tcs"], "runs": p["runs"], "tag": "mc-replay-" + label, "cps": bool(p.get("cps"))}) + "\n")
    os.environ["VERIF_KEEP"] = "1"
    try:
        vlib.run_driver(res, known, "file:" + planf, tier, seed)
    finally:
        del os.environ["VERIF_KEEP"]
    tdir = os.path.join(vlib.OUT, "traces", "%s_%s" % (res.prop, ("file:" + planf).replace(":", "_").replace("/", "_")))
    idx = vlib.load_index(tdir)
    pred = {json.dumps(sorted(set(p["tcs"]))): p for p in plist}
    same = diff = 0
    examples = []

    def norm(c):
        return {k: v for k, v in c.items() if v is True or (v is not False and v != 1)}
    for key, g in idx.items():
        p = pred.get(json.dumps(sorted(set(g["tcs"]))))
        if not p:
            continue
        wanted = [norm(x["cfg"]) for x in p["runs"]]
        for r in g["runs"]:
            c = norm(r["cfg"])
            if c in wanted:
                want = p["pred"][wanted.index(c)]
                if r.get("out") is not None and render(r["out"]) == want:
                    same += 1
                else:
                    diff += 1
                    if len(examples) < 5:
                        examples.append({"tcs": g["tcs"], "cfg": c, "model": want, "code": r.get("out")})
    shutil.rmtree(tdir, ignore_errors=True)
    shutil.rmtree(d, ignore_errors=True)
    res.extra.setdefault("level2_drift", {})[label] = {
        "behaviours_replayed": same + diff, "identical_output_strings": same, "different_output_strings": diff,
        "examples": examples,
        "note": "string equality with the transcription measures the fidelity of the model; it is never a violation"}


BUILDER_INV = ["OnlyDocumentedFailures", "DocumentedMessages", "CfgIsFunctionOfAncestry", "Replay"]
MODEL_SET = ["ab", "abc", "b", "\U0001F4A9x"]


def model_builder(front):
    def run(res, known, tier, seed):
        thorough = tier == "thorough"
        consts = {"MaxOps": 5 if thorough else 4, "MaxObjs": (4 if front == "wasm" else 3) if thorough else (3 if front == "wasm" else 2),
                  "Front": '"%s"' % front}
        tag = "builder_" + front
        cfgp_extra = None
        m = vlib.run_model("Builder", constants=consts, invariants=BUILDER_INV, tag=tag)
        if m["violated"]:
            raise ToolError("bounded model %s violates %s" % (tag, m["violated"]))
        hs = [o for o in m["objs"] if o.get("replay") == "history"]
        res.states += m["states"]
        res.transitions += m["transitions"]
        res.models.append({"model": "MC_Builder", "tag": tag, "constants": consts, "states": m["states"],
                           "transitions": m["transitions"], "behaviours": len(hs), "invariants": BUILDER_INV + ["Accumulate"],
                           "action_coverage": m["coverage"]})
        # spec -> code: execute every history on the real front end
        d = os.path.join(vlib.OUT, "traces", res.prop + "_mcb_" + front)
        shutil.rmtree(d, ignore_errors=True)
        os.makedirs(d)
        lines = []
        for i, h in enumerate(hs):
            ops = h["ops"]
            if front == "rust":
                conv = []
                for op in ops:
                    if op["op"] == "new":
                        conv.append({"op": "new", "o": op["o"], "list": [] if op["n"] == 0 else MODEL_SET})
                    elif op["op"] == "set":
                        conv.append({"op": "set", "o": op["o"], "name": op["name"], "arg": op["arg"]})
                    elif op["op"] == "clone":
                        conv.append({"op": "clone", "o": op["o"], "ret": op["ret"]})
                    else:
                        conv.append({"op": "build", "o": op["o"]})
                lines.append({"kind": "hist-rust", "sets": [MODEL_SET], "ops": conv})
            elif front == "wasm":
                arr = [] if ops[0]["n"] == 0 else [{"s": t} for t in MODEL_SET] + [None]
                conv = [{"op": "set", "o": op["o"], "name": op["name"], "arg": op["arg"], "ret": op["ret"]} if op["op"] == "set"
                        else {"op": "build", "o": op["o"]} for op in ops[1:]]
                lines.append({"kind": "hist-wasm", "plan": {"h": i + 1, "array": arr, "ops": conv}})
            else:
                lst = [] if ops[0]["n"] == 0 else MODEL_SET
                conv = [{"op": "new", "o": 1, "list": lst, "ctor": "init" if i % 2 else "classmethod"}]
                conv += [{"op": "set", "o": 1, "name": op["name"], "arg": op["arg"], "ret": 1} if op["op"] == "set"
                         else {"op": "build", "o": 1} for op in ops[1:]]
                lines.append({"kind": "hist-py", "plan": {"h": i + 1, "list": MODEL_SET, "ops": conv}})
        if front == "py":
            scen, resf = os.path.join(d, "scen.json"), os.path.join(d, "res.json")
            json.dump([l["plan"] for l in lines], open(scen, "w"))
            vlib.run_py_driver(scen, resf)
            for l, r in zip(lines, json.load(open(resf))):
                l["results"] = r
        planf = os.path.join(d, "plans.ndjson")
        with open(planf, "w") as f:
            for l in lines:
                f.write(json.dumps(l) + "\n")
        vlib.run_driver(res, known, "front:replay=" + planf, tier, seed)
        shutil.rmtree(d, ignore_errors=True)
    return run


REP_INV = ["TrieSound", "TrieExact", "OnlyWidening", "MinPreserves", "SymbolicAgrees", "Replay"]


def model_rep(res, known, tier, seed):
    """MC_Rep: trie insertion + minimisation over counted symbols, design (no widening) and as built."""
    thorough = tier == "thorough"
    plans = {}
    for tag, widen in (("rep_design", "FALSE"), ("rep_asbuilt", "TRUE")):
        consts = {"MaxSize": 3 if thorough else 2, "MaxSyms": 2, "MaxCount": 3, "Widen": widen}
        m = vlib.run_model("Rep", constants=consts, invariants=REP_INV, tag=tag)
        if m["violated"]:
            raise ToolError("bounded model %s violates %s" % (tag, m["violated"]))
        reps = [o for o in m["objs"] if o.get("replay") == "rep"]
        res.states += m["states"]
        res.transitions += m["transitions"]
        res.models.append({"model": "MC_Rep", "tag": tag, "constants": consts, "states": m["states"],
                           "transitions": m["transitions"], "behaviours": len(reps), "invariants": REP_INV,
                           "inputs_where_trie_is_not_exact": sum(1 for o in reps if not o["exact"]),
                           "inputs_with_a_widened_edge": sum(1 for o in reps if o["widened"])})
        if widen == "TRUE":
            for o in reps:
                plans[json.dumps(sorted(o["tcs"]))] = o["tcs"]
    d = os.path.join(vlib.OUT, "traces", res.prop + "_mcrep")
    shutil.rmtree(d, ignore_errors=True)
    os.makedirs(d)
    planf = os.path.join(d, "plans.ndjson")
    with open(planf, "w") as f:
        for tcs in plans.values():
            f.write(json.dumps({"tcs": tcs, "runs": [{"cfg": {}}, {"cfg": {"rep": True}}, {"cfg": {"rep": True, "minrep": 2}}],
                                "tag": "mc-rep-replay"}) + "\n")
    vlib.run_driver(res, known, "file:" + planf, tier, seed)
    shutil.rmtree(d, ignore_errors=True)


FRONT_INV = ["LinesLaw", "LinesNoEol", "LinesEmpty", "PyLaw", "PyNoBraceLeft", "PyKeepsOtherText", "PyEscapedBackslash", "EscLaw", "EscRejects",
             "SgrLaw", "SgrKeepsEscapedBracket", "CliLaw"]


def model_front_laws(res, known, tier, seed):
    """MC_Front: laws of Lines / PyRewrite / EscTok / StripSGR / CliMap over small domains (no replay: the
    functions are bound to the code by the cli / py / escape / colour trace events that use them)."""
    m = vlib.run_model("Front", invariants=FRONT_INV, tag="front_laws", workers=4)
    if m["violated"]:
        raise ToolError("bounded model front_laws violates %s" % m["violated"])
    res.states += m["states"]
    res.transitions += m["transitions"]
    res.models.append({"model": "MC_Front", "states": m["states"], "transitions": m["transitions"], "laws": FRONT_INV})


CLASS_INV = ["Contains", "LiteralOnlyIfNothingApplies", "Precedence", "Replay"]
KIND_CHARS = {(True, True, False): ["7", "\u0663", "\U0001D7D7"], (False, True, False): ["a", "\u00e9", "_", "\u2167"],
              (False, False, True): [" ", "\u00a0", "\t", "\u3000"], (False, False, False): ["-", "\u20ac", "\U0001F4A9", "\u00b2"]}
FLAG_NAMES = ["digit", "nondigit", "space", "nonspace", "word", "nonword"]


def model_class(res, known, tier, seed):
    """MC_Class: the 4 x 64 class-conversion table; every entry is instantiated with real characters of its kind."""
    m = vlib.run_model("Class", invariants=CLASS_INV, tag="class_table", workers=4)
    if m["violated"]:
        raise ToolError("bounded model class_table violates %s" % m["violated"])
    entries = [o for o in m["objs"] if o.get("replay") == "class"]
    res.states += m["states"]
    res.transitions += m["transitions"]
    res.models.append({"model": "MC_Class", "states": m["states"], "transitions": m["transitions"], "table_entries": len(entries),
                       "invariants": CLASS_INV})
    d = os.path.join(vlib.OUT, "traces", res.prop + "_mcclass")
    shutil.rmtree(d, ignore_errors=True)
    os.makedirs(d)
    planf = os.path.join(d, "plans.ndjson")
    by_kind = {}
    for e in entries:
        by_kind.setdefault((e["d"], e["w"], e["s"]), []).append(e)
    with open(planf, "w") as f:
        for kind, es in by_kind.items():
            for ch in KIND_CHARS[kind]:
                runs = [{"cfg": {n: (n in e["flags"]) for n in FLAG_NAMES}} for e in es]
                f.write(json.dumps({"tcs": [ch], "runs": runs, "tag": "mc-class-replay"}) + "\n")
                f.write(json.dumps({"tcs": ["x" + ch + ch, ch], "runs": runs[::3], "tag": "mc-class-replay"}) + "\n")
    vlib.run_driver(res, known, "file:" + planf, tier, seed)
    shutil.rmtree(d, ignore_errors=True)
    res.exhaustive = True


FOLD_REAL = ["A", "a", "\u0130", "i", "\u0307", "\ua7dc", "\u019b"]


def model_fold(res, known, tier, seed):
    """MC_Fold: case folding over an abstract alphabet; the repaired rule (Agree) satisfies P_C04, the rule
    before the D5 repair must be refuted by TLC (negative control of the model)."""
    consts = {"MaxLen": 3 if tier == "thorough" else 2, "Agree": "TRUE"}
    m = vlib.run_model("Fold", constants=consts, invariants=["P_C04", "Collapse", "Replay"], tag="fold_fixed", workers=4)
    if m["violated"]:
        raise ToolError("bounded model fold_fixed violates %s" % m["violated"])
    neg = vlib.run_model("Fold", constants={"MaxLen": 1, "Agree": "FALSE"}, invariants=["P_C04"], tag="fold_prefix", workers=2)
    if "P_C04" not in neg["violated"]:
        raise ToolError("negative control: the pre-repair folding rule was not refuted by TLC")
    words = [o for o in m["objs"] if o.get("replay") == "fold"]
    res.states += m["states"] + neg["states"]
    res.transitions += m["transitions"] + neg["transitions"]
    res.models.append({"model": "MC_Fold", "constants": consts, "states": m["states"], "transitions": m["transitions"],
                       "behaviours": len(words), "invariants": ["P_C04", "Collapse"],
                       "negative_control": "Agree=FALSE refuted by TLC with %s" % neg["violated"]})
    d = os.path.join(vlib.OUT, "traces", res.prop + "_mcfold")
    shutil.rmtree(d, ignore_errors=True)
    os.makedirs(d)
    planf = os.path.join(d, "plans.ndjson")
    strs = ["".join(FOLD_REAL[a - 1] for a in o["w"]) for o in words]
    with open(planf, "w") as f:
        for i, t in enumerate(strs):
            other = strs[(i * 7 + 3) % len(strs)]
            f.write(json.dumps({"tcs": sorted(set([t, other])), "runs": [{"cfg": {"icase": True}}, {"cfg": {"icase": True, "rep": True}},
                                                                          {"cfg": {"icase": True, "nostart": True, "noend": True}}],
                                "tag": "mc-fold-replay"}) + "\n")
    vlib.run_driver(res, known, "file:" + planf, tier, seed)
    shutil.rmtree(d, ignore_errors=True)


LANG_INV = ["ConcatForms", "SymbolicEquality", "SymbolicEqualityModEps", "SymbolicMembership", "OrderedAgrees", "FindSane"]


def model_lang(res, known, tier, seed):
    """MC_Lang: the explicit-set, symbolic and ordered semantics of Lang.tla agree on all small regex ASTs."""
    consts = {"Depth": 2 if tier == "thorough" else 1}
    m = vlib.run_model("Lang", constants=consts, invariants=LANG_INV, tag="lang_semantics", workers=8, timeout=3400)
    if m["violated"]:
        raise ToolError("bounded model lang_semantics violates %s" % m["violated"])
    res.states += m["states"]
    res.transitions += m["transitions"]
    res.models.append({"model": "MC_Lang", "constants": consts, "states": m["states"], "transitions": m["transitions"],
                       "invariants": LANG_INV})


def model_verbose(res, known, tier, seed):
    """MC_Verbose: verbose-mode escaping at the token level; the rule before the D4 repair must be refuted."""
    consts = {"MaxLen": 5 if tier == "thorough" else 4, "Mode": '"fixed"'}
    m = vlib.run_model("Verbose", constants=consts, invariants=["Exact", "RawIsWrong"], tag="verbose_fixed", workers=4)
    if m["violated"]:
        raise ToolError("bounded model verbose_fixed violates %s" % m["violated"])
    neg = vlib.run_model("Verbose", constants={"MaxLen": 1, "Mode": '"widen"'}, invariants=["Exact"], tag="verbose_widen", workers=2)
    if "Exact" not in neg["violated"]:
        raise ToolError("negative control: the pre-repair verbose rule was not refuted by TLC")
    res.states += m["states"] + neg["states"]
    res.transitions += m["transitions"] + neg["transitions"]
    res.models.append({"model": "MC_Verbose", "constants": consts, "states": m["states"], "transitions": m["transitions"],
                       "invariants": ["Exact", "RawIsWrong"], "negative_control": "Mode=widen refuted by TLC"})


def model_segment(res, known, tier, seed):
    """MC_Segment: the S3 rule over all attribute words; the rule before the D3 repair must be refuted."""
    consts = {"MaxLen": 5 if tier == "thorough" else 4, "Rule": '"fixed"'}
    inv = ["Tiles", "NoMerge", "Alone", "KeepWhole"]
    m = vlib.run_model("Segment", constants=consts, invariants=inv, tag="segment_fixed", workers=4)
    if m["violated"]:
        raise ToolError("bounded model segment_fixed violates %s" % m["violated"])
    neg = vlib.run_model("Segment", constants={"MaxLen": 3, "Rule": '"old"'}, invariants=["Alone"], tag="segment_old", workers=2)
    if "Alone" not in neg["violated"]:
        raise ToolError("negative control: the pre-repair segmentation rule was not refuted by TLC")
    res.states += m["states"] + neg["states"]
    res.transitions += m["transitions"] + neg["transitions"]
    res.models.append({"model": "MC_Segment", "constants": consts, "states": m["states"], "transitions": m["transitions"],
                       "invariants": inv, "negative_control": "Rule=old (split on a backslash only in two-character clusters) refuted by TLC"})


def model_escape(res, known, tier, seed):
    """MC_Escape: escaping x surrogate pairs x repetitions x capturing groups on the Level-2 pipeline over an ASCII,
    a BMP and an astral character; every behaviour replayed on the real library (string drift)."""
    thorough = tier == "thorough"
    consts = {"MaxLen": 3 if thorough else 2, "MaxSize": 2}
    inv = ["PresentationOnly", "AsciiOnly", "NoClassOfEscapes", "Replay"]
    m = vlib.run_model("Escape", constants=consts, invariants=inv, tag="escape", workers=8)
    if m["violated"]:
        raise ToolError("bounded model escape violates %s" % m["violated"])
    beh = [o for o in m["objs"] if o.get("replay") == "escape"]
    res.states += m["states"]
    res.transitions += m["transitions"]
    res.models.append({"model": "MC_Escape", "constants": consts, "states": m["states"], "transitions": m["transitions"],
                       "behaviours": len(beh), "invariants": inv})
    real = lambda x: x.replace("E", "\u00e9").replace("P", "\U0001F4A9")
    plans = {}
    for o in beh:
        tcs = sorted(real(t) for t in o["tcs"].values())
        p = plans.setdefault(json.dumps(tcs), {"tcs": tcs, "runs": [], "pred": []})
        p["runs"].append({"cfg": {k: o[k] for k in ("escape", "surr", "rep", "capture")}})
        p["pred"].append(real(o["out"]))
    replay_with_drift(res, known, list(plans.values()), tier, seed, "escape")


def model_print(res, known, tier, seed):
    """MC_Print: the complete printer (verbose layout, capturing groups, colour) on the Level-2 pipeline."""
    consts = {"MaxLen": 3, "MaxSize": 3 if tier == "thorough" else 2}
    inv = ["C15", "C06Layout", "OldPrinter", "Replay"]
    m = vlib.run_model("Print", constants=consts, invariants=inv, tag="print", workers=8)
    if m["violated"]:
        raise ToolError("bounded model print violates %s" % m["violated"])
    beh = [o for o in m["objs"] if o.get("replay") == "print"]
    res.states += m["states"]
    res.transitions += m["transitions"]
    res.models.append({"model": "MC_Print", "constants": consts, "states": m["states"], "transitions": m["transitions"],
                       "behaviours": len(beh), "invariants": inv})
    plans = {}
    for o in beh:
        tcs = sorted(o["tcs"].values())
        p = plans.setdefault(json.dumps(tcs), {"tcs": tcs, "runs": [], "pred": []})
        cfg = {k: o[k] for k in ("verbose", "capture", "nostart", "noend", "rep")}
        p["runs"].append({"cfg": dict(cfg)})
        p["pred"].append(o["plain"])
        p["runs"].append({"cfg": dict(cfg, color=True)})
        p["pred"].append(o["colored"])
    for p in plans.values():
        p["cps"] = True
    replay_with_drift(res, known, list(plans.values()), tier, seed, "print",
                      render=lambda x: x.replace("\x1b", "\\e").replace("\n", "\\n"))


def model_apalache_builder(res, known, tier, seed):
    """Unbounded (all histories, all integer arguments) safety of the settings machine: an inductive invariant
    discharged by Apalache (thresholds always >= 1, surrogate pairs only with escaping)."""
    d = os.path.join(vlib.OUT, "apalache")
    os.makedirs(d, exist_ok=True)
    spec = os.path.join(vlib.SPEC, "apalache", "AP_Builder.tla")
    done = 0
    for args in (["--init=Init", "--inv=IndInv", "--length=0"], ["--init=IndInit", "--inv=IndInv", "--length=1"]):
        p = vlib.sh(["apalache-mc", "check", "--out-dir=" + d] + args + [spec], timeout=900, check=False, cwd=os.path.join(vlib.SPEC, "apalache"))
        if "EXITCODE: OK" not in (p.stdout or ""):
            raise ToolError("apalache %s failed:\n%s" % (args, (p.stdout or "")[-1500:]))
        done += 1
    shutil.rmtree(d, ignore_errors=True)
    res.models.append({"model": "apalache/AP_Builder", "inductive_invariant": "minrep >= 1 /\\ minsub >= 1 /\\ (surr => escape)",
                       "obligations": 2, "discharged": done, "scope": "all histories of any length, all integer arguments"})


def model_tlaps_lang(res, known, tier, seed):
    """TLAPS: unit laws of language concatenation and the 'modulo the empty word' comparison (39 obligations)."""
    d = os.path.join(vlib.SPEC, "tlaps")
    shutil.rmtree(os.path.join(d, ".tlacache"), ignore_errors=True)
    p = vlib.sh(["tlapm", "--threads", "8", "--cleanfp", "LangLemmas.tla"], timeout=900, check=False, cwd=d)
    m = vlib.re.search(r"All (\d+) obligations? proved", p.stdout or "")
    shutil.rmtree(os.path.join(d, ".tlacache"), ignore_errors=True)
    if not m:
        raise ToolError("tlapm did not prove LangLemmas:\n%s" % (p.stdout or "")[-1500:])
    res.models.append({"model": "tlaps/LangLemmas", "obligations": int(m.group(1)), "discharged": int(m.group(1)),
                       "theorems": ["UnitRight", "UnitLeft", "EqualImpliesEqualModEps", "ModEpsTransitive", "ModEpsPlusEpsIsEqual"]})


MODELS = {"segment": model_segment, "escape": model_escape, "tlaps-lang": model_tlaps_lang, "apalache-builder": model_apalache_builder, "print": model_print, "verbose": model_verbose, "repconv": model_repconv, "lang": model_lang, "fold": model_fold, "front-laws": model_front_laws, "class": model_class, "rep": model_rep, "pipeline": model_pipeline, "builder-rust": model_builder("rust"), "builder-py": model_builder("py"),
          "builder-wasm": model_builder("wasm")}


def run_model_and_replay(res, known, m, tier, seed):
    MODELS[m](res, known, tier, seed)


def replay(path):
    payload = json.load(open(path))
    prop = payload["property"]
    vlib.build_harness()
    d = os.path.join(vlib.OUT, "replay_run")
    shutil.rmtree(d, ignore_errors=True)
    os.makedirs(d)
    planf = os.path.join(d, "plan.ndjson")
    if "front" in payload:
        with open(planf, "w") as f:
            f.write(json.dumps(payload["front"]) + "\n")
        tdir, stats = vlib.gen_traces("front:replay=" + planf, "quick", payload.get("seed", 0), "replay_one", shards=1)
    else:
        with open(planf, "w") as f:
            f.write(json.dumps(payload["plan"]) + "\n")
        tdir, stats = vlib.gen_traces("file:" + planf, "quick", payload.get("seed", 0), "replay_one", shards=1)
    agg = vlib.validate_dir(tdir, "replay_one")
    idx = vlib.load_index(tdir)
    mine = [v for v in agg["verdicts"] if vlib.concerns(prop, v, payload.get("driver", ""), idx)]
    for key, g in idx.items():
        if key[0] == "g":
            for r in g["runs"]:
                print("run %d settings=%s -> %s" % (r["r"], json.dumps({k: v for k, v in r["cfg"].items() if v is True or (v is not False and v != 1)}),
                                                    json.dumps(r.get("out", r.get("panic")), ensure_ascii=True)))
        else:
            print("scenario: %s" % json.dumps(g, ensure_ascii=True)[:2000])
    known = vlib.load_known()
    bad = 0
    for v in mine:
        k = vlib.match_known(known, prop, vlib.verdict_key(v))
        print("verdict%s: %s" % (" (known finding)" if k else "", json.dumps(v)))
        if not k:
            bad += 1
    if bad:
        print("VIOLATION property=%s replay=%s" % (prop, path))
        return 1
    print("no new verdict for %s on this scenario" % prop)
    return 0


def selftest():
    """Demonstrates the binding between specification and code (DESIGN.md 7): a trace recorded from the real
    code is accepted; corrupting one recorded field makes the monitor answer with the right verdict; removing
    one hook event makes it reject the trace."""
    vlib.build_harness()
    d = os.path.join(vlib.OUT, "selftest")
    shutil.rmtree(d, ignore_errors=True)
    os.makedirs(d)
    planf = os.path.join(d, "plan.ndjson")
    with open(planf, "w") as f:
        f.write(json.dumps({"tcs": ["ab", "abc", "b"], "runs": [{"cfg": {}}, {"cfg": {"noend": True}}, {"cfg": {}, "input": ["b", "abc", "ab", "b"]}]}) + "\n")
    tdir, _ = vlib.gen_traces("file:" + planf, "quick", 0, "selftest", shards=1)
    base = [json.loads(l) for l in open(os.path.join(tdir, "trace_0.ndjson"))]

    def run(events, tag):
        p = os.path.join(d, tag + ".ndjson")
        with open(p, "w") as f:
            for e in events:
                f.write(json.dumps(e) + "\n")
        try:
            r = vlib.run_monitor(p, "selftest_" + tag)
            return True, [v["verdict"] for v in r["verdicts"]]
        except ToolError:
            return False, []

    import copy
    results = []

    def expect(name, events, accepted, verdict=None):
        acc, vs = run(events, name)
        ok = acc == accepted and (verdict is None or verdict in vs) and (verdict is not None or not accepted or vs == [])
        results.append((name, ok, acc, vs))

    expect("unmodified", base, True)
    ev = copy.deepcopy(base)
    m = [e for e in ev if e["ev"] == "min"][0]
    m["finals"] = m["finals"][:-1]
    expect("final-state-dropped-from-min", ev, True, "min-lang")
    ev = copy.deepcopy(base)
    o = [e for e in ev if e["ev"] == "out"][0]

    def widen(h):
        if h.get("t") == "cls":
            h["s"] = sorted(set(h["s"]) | {1})
            return True
        for k in ("xs",):
            for x in h.get(k, []):
                if widen(x):
                    return True
        return "x" in h and widen(h["x"])
    widen(o["hir"])
    expect("class-widened-in-output", ev, True, "print")
    ev = copy.deepcopy(base)
    outs = [e for e in ev if e["ev"] == "out"]
    outs[2]["sid"] = 99
    expect("different-string-for-permuted-list", ev, True, "nondeterministic")
    ev = copy.deepcopy(base)
    r = [e for e in ev if e["ev"] == "run"][0]
    r["cfg"]["icase"] = True
    expect("settings-say-case-insensitive", ev, True, "flags")
    ev = [e for e in copy.deepcopy(base) if not (e["ev"] == "min" and e["r"] == 1)]
    expect("hook-event-removed", ev, False)
    ev = copy.deepcopy(base)
    ob = [e for e in ev if e["ev"] == "obs"][1]
    ob["find"][0] = [0, 1]
    expect("engine-observation-contradicts-model", ev, True, "find-model-mismatch")
    bad = 0
    for name, ok, acc, vs in results:
        print("%-42s %s (accepted=%s verdicts=%s)" % (name, "as expected" if ok else "UNEXPECTED", acc, sorted(set(vs))))
        bad += 0 if ok else 1
    shutil.rmtree(d, ignore_errors=True)
    shutil.rmtree(tdir, ignore_errors=True)
    return 2 if bad else 0


def dev_driver(name, tier="quick", seed=1):
    """developer helper: run one driver through the monitor and summarise ALL verdicts"""
    vlib.build_harness()
    t0 = time.time()
    d, stats = vlib.gen_traces(name, tier, seed, "dev_" + name)
    t1 = time.time()
    agg = vlib.validate_dir(d, "dev_" + name)
    t2 = time.time()
    idx = vlib.load_index(d)
    kinds = {}
    ex = {}
    for v in agg["verdicts"]:
        k = (v["verdict"], ",".join(v["props"]), v.get("explained", ""), v.get("first", ""))
        kinds[k] = kinds.get(k, 0) + 1
        if k not in ex:
            if v.get("g", 0) == 0 and "h" in v:
                ex[k] = (idx.get(("h", v["h"])), v.get("k"))
            else:
                g = idx[("g", v["g"])]
                rr = [r for r in g["runs"] if r["r"] == v["r"]][0]
                ex[k] = (g["tcs"], {a: b for a, b in rr["cfg"].items() if b is not False and b != 1 or b is True}, rr.get("out", rr.get("panic")))
    print("driver %s: gen %.1fs monitor %.1fs builds %d events %d groups %d states %d" % (
        name, t1 - t0, t2 - t1, stats["builds"], stats["events"], stats["distinct_groups"], agg["states"]))
    print("  counters:", json.dumps(agg["counters"]))
    for k, n in sorted(kinds.items()):
        print("  %6d %s" % (n, k))
        if k[2] == "":
            print("         e.g. %s" % json.dumps(ex[k], ensure_ascii=True)[:400])
    for n in stats["notes"][:5]:
        print("  note:", n[:300])
    return 0

# edited by hand; consumed by lib/mkmanifest.py
TB = ("Trusted: TLC 1.8.0 + CommunityModules JSON reader; regex-syntax 0.8.4 / regex 1.10.6 (they define what a pattern means; a search "
      "or membership verdict additionally needs the specification's own semantics to agree with the engine's observation); the harness' "
      "projection of Unicode to atoms (self-checked per group); read-only cfg(grex_verif) hooks. Not unbounded: inputs are the driver "
      "families of DESIGN.md 4.5, exhaustive only where evidence says exhaustive.")
TECH = "explicit TLA+ specification (spec/*.tla) checked by TLC: trace validation of the real code (Monitor.tla) + named-deviation model (Algo.tla)"

def C(i, text, ref, note=TB, tech=TECH):
    claim(i, text, note, tech, ref)

C("C01", "Every build is replayed by TLC as a behaviour of the pipeline specification; membership of every original test case in the symbolic language of the parsed output is decided, and the engine's observed anchored full match must agree.", "DESIGN.md 5 C01")
C("C02", "TLC decides language EQUALITY between the parsed output and the test-case set symbolically over atoms (hence over all 1 112 064 scalar values, all lengths), per stage, exhaustively for all small sets over {a,b}^<=3 / {a,b,c}^<=2.", "DESIGN.md 5 C02")
C("C03", "The expected language E(T,c) (documented precedence, the regex crate's own class denotations) is built in TLA+ and compared symbolically with the output for random subsets of the six class options on multi-script inputs.", "DESIGN.md 5 C03")
C("C04", "Fold orbits come from regex-syntax; TLC compares the (?i) output language with the orbit language of the ORIGINAL test cases; every scalar value is swept as a one-character test case (de-duplicated by abstract trace).", "DESIGN.md 5 C04")
C("C05", "Differential: TLC compares the language of each build with repetition conversion against its twin without, and judges the cluster / trie stages; the known widening deviation is recognised only when the as-built transcription predicts the recorded language exactly.", "DESIGN.md 5 C05")
C("C06", "All 8 subsets of {verbose, capture, escape} are built per input and compared pairwise by language; flag prefix and group kinds are read from the regex-syntax AST.", "DESIGN.md 5 C06")
C("C07", "Panics are data: every build outcome of a rotating window over the full 2^15 settings lattice, thresholds incl. u32::MAX, and random builder histories is judged against the Builder specification (documented panics only, documented messages).", "DESIGN.md 5 C07")
C("C08", "TLC evaluates the anchor facts of the parsed pattern, the body-language twin comparison and the observed leftmost-first search span of every test case (which must agree with the specification's ordered semantics Lang!Find).", "DESIGN.md 5 C08")
C("C09", "Every scalar value is built alone under the six single class options (all 63 subsets in the thorough tier); classes are the regex crate's, grex's tables are never consulted; abstract traces are de-duplicated and each is judged by TLC.", "DESIGN.md 5 C09")
C("C10", "Builder histories (setter orders, interleaved builds, clones, list permutations/duplicates) are folded through the Builder object machine by TLC; same set + same settings must give the same string, also across 16 threads and fresh processes.", "DESIGN.md 5 C10")
C("C11", "Escape tokens of every output are checked against the UTF-16 arithmetic written in TLA+ (EscWellFormed), ASCII-only, and the decoded pattern's language against the unescaped twin; every non-ASCII scalar is swept.", "DESIGN.md 5 C11")
C("C12", "The built binary is run on generated scenarios (flags x 4 channels x EOL x final newline x error inputs); TLC computes the expected settings (CliMap) and lines (Lines) itself and compares stdout with the library's result for them.", "DESIGN.md 5 C12")
C("C13", "Counted quantifiers are read from the regex-syntax AST of every output and judged against the thresholds by TLC, also at the cluster stage (every symbol, nested ones included).", "DESIGN.md 5 C13")
C("C14", "The extension module is built from /repo and driven in CPython; TLC folds each history through the Py object machine and checks out = PyRewrite(library output), no brace escape left, re.compile ok, fullmatch of the test cases.", "DESIGN.md 5 C14")
C("C15", "Colour on/off twins of random settings: TLC strips SGR sequences with the scanner of Grex!StripSGR and compares code point sequences.", "DESIGN.md 5 C15")
C("C16", "Hook snapshots of every stage are judged by TLC: cluster, trie, minimised automaton (language, determinism and minimality over symbols), expression, final expression, printed pattern; the first diverging stage is reported.", "DESIGN.md 5 C16")
C("C17", "REDUCED CLAIM: src/wasm.rs is compiled natively (cfg grex_verif_wasm) against a stand-in for wasm_bindgen and driven through mutate-and-copy histories judged by the Wasm object machine; wasm32 code generation, wasm-bindgen glue and the JS host are not reached.", "DESIGN.md 5 C17",
  note=TB + " For C17 additionally the 40-line stand-in JsValue (harness/mock) is trusted to behave like wasm_bindgen's for strings / non-strings.")

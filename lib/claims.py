# edited by hand; consumed by lib/mkmanifest.py
TB = ("Trusted: TLC + CommunityModules JSON reader; regex-syntax/regex (they define what a pattern means); "
      "the harness' atom projection (self-checked per group); read-only hooks. Bounded: explicit-set languages up to LIMIT words per run.")
TECH = "TLA+ spec (Lang/Grex) + TLC trace validation (Monitor.tla) of hook/engine traces from the real code"

claim("C01", "Every build of the small-scope and adversarial drivers is replayed as a behaviour of the TLA+ pipeline specification; TLC evaluates membership of every original test case in the language of the parsed output and the engine's observed full match.", TB, TECH, "DESIGN.md 5 C01")
claim("C02", "TLC decides language EQUALITY (over atoms, i.e. over all scalar values) between the parsed output and the test-case set for every run, per stage.", TB, TECH, "DESIGN.md 5 C02")
claim("C16", "The Level-1 pipeline invariants (cluster, trie, minimised automaton incl. determinism/minimality over symbols, expression, printed pattern) are evaluated by TLC on the hook snapshots of every run.", TB, TECH, "DESIGN.md 5 C16")

for k in ["C03","C04","C05","C06","C07","C08","C09","C10","C11","C12","C13","C14","C15","C17"]:
    NOT_YET[k] = "check under construction in this round (planned, see DESIGN.md section 5); not claimed yet"

#!/usr/bin/env python3
"""Regenerates MANIFEST.json from the table below (keeps it valid at all times)."""
import json, os, subprocess
ROOT = os.path.dirname(os.path.dirname(os.path.abspath(__file__)))

CLAIMED = {}   # id -> dict(text, note, technique, design_ref)
NOT_YET = {}   # id -> reason

def claim(i, text, note, technique, ref):
    CLAIMED[i] = dict(text=text, note=note, technique=technique, ref=ref)

exec(open(os.path.join(ROOT, "lib", "claims.py")).read())

hooks_commits = subprocess.run(["git", "-C", "/repo", "log", "--format=%H %s"], capture_output=True, text=True).stdout
hook_shas = [l.split()[0] for l in hooks_commits.splitlines() if l.split(" ", 1)[1].startswith("verif:")]

m = {
    "version": 1,
    "setup_cmd": "./check setup",
    "hooks": {
        "guard": "grex_verif",
        "enable": "RUSTFLAGS='--cfg grex_verif' (set in /verif/harness/.cargo/config.toml; the harness has a path dependency on /repo, so every check rebuilds grex from the working tree with the hooks on); C17 additionally uses --cfg grex_verif_wasm",
        "baseline_off_cmd": "cd /repo && cargo test --workspace --no-fail-fast --offline",
        "source_commits": hook_shas,
        "add_only": True,
    },
    "engines": [
        {"name": "tlc-models", "path": "spec/MC_*.tla", "kind_free_text": "TLC exhaustive exploration of bounded instances of the TLA+ specification", "serves_properties": sorted(CLAIMED)},
        {"name": "tlc-monitor", "path": "spec/Monitor.tla", "kind_free_text": "TLC trace validation of NDJSON traces recorded from the real code by harness/ (hooks + regex-crate observations)", "serves_properties": sorted(CLAIMED)},
        {"name": "harness", "path": "harness/", "kind_free_text": "Rust driver: runs the real grex, projects Unicode to atoms, replays TLC behaviours", "serves_properties": sorted(CLAIMED)},
    ],
    "checks": [],
    "not_applicable": [{"property_id": k, "reason": v} for k, v in sorted(NOT_YET.items())],
    "notes": "All checks: ./check <id> --tier quick|thorough; exit 0 held / 1 VIOLATION / 2 tool error. See DESIGN.md.",
}
for i in sorted(CLAIMED):
    c = CLAIMED[i]
    m["checks"].append({
        "property_id": i,
        "quick_cmd": "./check %s --tier quick" % i,
        "thorough_cmd": "./check %s --tier thorough" % i,
        "evidence_file": "/verif/evidence/%s.json" % i,
        "replay_cmd_template": "./check --replay {path}",
        "engine": "tlc-models+tlc-monitor+harness",
        "level_claimed": {"category": "model_checking", "text": c["text"], "design_ref": c["ref"]},
        "level_note": c["note"],
        "technique": c["technique"],
    })
json.dump(m, open(os.path.join(ROOT, "MANIFEST.json"), "w"), indent=1)
print("MANIFEST.json: %d checks, %d not_applicable" % (len(m["checks"]), len(m["not_applicable"])))

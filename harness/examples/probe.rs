use regex::Regex;
fn main() {
    for p in ["(\u{1fd3}ccccc|c)", "(?x)\n  (\n    \\u{1fd3}ccccc\n    |\n    c\n  )", "(?:\u{1fd3}ccccc|c)", "(zccccc|c)", "(\u{1fd3}cc|c)"] {
        let re = Regex::new(p).unwrap();
        for t in ["\u{1fd3}ccccc", "zccccc", "\u{1fd3}cc"] {
            println!("{:?} on {:?}: {:?}", p, t, re.find(t).map(|m| (m.start(), m.end())));
        }
    }
}

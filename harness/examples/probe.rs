use regex::Regex;
fn main() {
    for p in ["(?:\\s\u{390}\u{390}\u{390}|\u{390}\u{390})", "(?x)\n  (?:\n    \\s\\u{390}\\u{390}\\u{390}\n    |\n    \\u{390}\\u{390}\n  )"] {
        let re = Regex::new(p).unwrap();
        for t in ["\u{2029}\u{390}\u{390}\u{390}", "\u{390}\u{390}", " \u{390}\u{390}\u{390}"] {
            println!("{:?} on {:?}: {:?}", p, t, re.find(t).map(|m| (m.start(), m.end())));
        }
    }
}

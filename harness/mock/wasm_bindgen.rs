//! Stand-in for the parts of the `wasm_bindgen` crate that src/wasm.rs uses: `JsValue` with
//! `as_string()` / `From<&str>` and the prelude. JavaScript values are modelled as an enum.
pub use wasm_bindgen_macro::wasm_bindgen;

#[derive(Clone, Debug, PartialEq)]
pub enum JsValue {
    Undefined,
    Null,
    Bool(bool),
    Number(f64),
    String(String),
}

impl JsValue {
    pub fn as_string(&self) -> Option<String> {
        match self {
            JsValue::String(s) => Some(s.clone()),
            _ => None,
        }
    }
    pub fn from_str(s: &str) -> JsValue {
        JsValue::String(s.to_string())
    }
}

impl From<&str> for JsValue {
    fn from(s: &str) -> JsValue {
        JsValue::String(s.to_string())
    }
}

impl From<String> for JsValue {
    fn from(s: String) -> JsValue {
        JsValue::String(s)
    }
}

pub mod prelude {
    pub use crate::JsValue;
    pub use wasm_bindgen_macro::wasm_bindgen;
}

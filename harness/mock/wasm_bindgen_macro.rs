//! Stand-in for the `#[wasm_bindgen]` attribute: leaves the item unchanged (native verification build).
extern crate proc_macro;
use proc_macro::TokenStream;

#[proc_macro_attribute]
pub fn wasm_bindgen(_attr: TokenStream, item: TokenStream) -> TokenStream {
    item
}

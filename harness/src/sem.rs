//! Character semantics *as the regex crate sees them* (regex-syntax 0.8.4 tables):
//! the sets \d, \w, \s, their closures under (?i), and simple case-fold orbits.
//! These are the oracle side of C03/C04/C09 — grex's own tables are never consulted.

use crate::proj::CharSet;
use regex_syntax::hir::{Class, ClassUnicode, ClassUnicodeRange, HirKind};
use std::sync::OnceLock;

pub fn class_to_set(c: &ClassUnicode) -> CharSet {
    CharSet::from_ranges(
        c.ranges()
            .iter()
            .map(|r| (r.start() as u32, r.end() as u32))
            .collect(),
    )
}

fn parse_class(pat: &str) -> CharSet {
    let hir = regex_syntax::ParserBuilder::new()
        .build()
        .parse(pat)
        .expect("class pattern parses");
    match hir.kind() {
        HirKind::Class(Class::Unicode(c)) => class_to_set(c),
        other => panic!("unexpected HIR for {}: {:?}", pat, other),
    }
}

pub struct Classes {
    pub d: CharSet,
    pub w: CharSet,
    pub s: CharSet,
    /// the same tokens under the (?i) flag: \d \w \s \D \W \S
    pub di: CharSet,
    pub wi: CharSet,
    pub si: CharSet,
    pub nd: CharSet,
    pub nw: CharSet,
    pub ns: CharSet,
    pub ndi: CharSet,
    pub nwi: CharSet,
    pub nsi: CharSet,
}

pub fn classes() -> &'static Classes {
    static C: OnceLock<Classes> = OnceLock::new();
    C.get_or_init(|| Classes {
        d: parse_class(r"\d"),
        w: parse_class(r"\w"),
        s: parse_class(r"\s"),
        di: parse_class(r"(?i)\d"),
        wi: parse_class(r"(?i)\w"),
        si: parse_class(r"(?i)\s"),
        nd: parse_class(r"\D"),
        nw: parse_class(r"\W"),
        ns: parse_class(r"\S"),
        ndi: parse_class(r"(?i)\D"),
        nwi: parse_class(r"(?i)\W"),
        nsi: parse_class(r"(?i)\S"),
    })
}

/// The set of characters the regex crate treats as equal to `c` under (?i)
/// (simple case folding closure of {c}).
pub fn fold_orbit(c: char) -> CharSet {
    let mut cls = ClassUnicode::new([ClassUnicodeRange::new(c, c)]);
    cls.case_fold_simple();
    class_to_set(&cls)
}

pub fn fold_closure(s: &CharSet) -> CharSet {
    let mut cls = ClassUnicode::new(s.0.iter().filter_map(|&(a, b)| {
        Some(ClassUnicodeRange::new(
            char::from_u32(a)?,
            char::from_u32(b)?,
        ))
    }));
    cls.case_fold_simple();
    class_to_set(&cls)
}

/// Token letter -> denotation under the given case flag.
pub fn token_set(tok: char, icase: bool) -> &'static CharSet {
    let c = classes();
    match (tok, icase) {
        ('d', false) => &c.d,
        ('w', false) => &c.w,
        ('s', false) => &c.s,
        ('D', false) => &c.nd,
        ('W', false) => &c.nw,
        ('S', false) => &c.ns,
        ('d', true) => &c.di,
        ('w', true) => &c.wi,
        ('s', true) => &c.si,
        ('D', true) => &c.ndi,
        ('W', true) => &c.nwi,
        ('S', true) => &c.nsi,
        _ => panic!("bad token {}", tok),
    }
}

//! C17: src/wasm.rs compiled natively (cfg grex_verif_wasm) against the wasm_bindgen stand-in.
//! Every setter of the wrapper mutates the receiver AND returns a copy; histories use both.

use crate::front::{believe, lib_out, Interner, SETTERS};
use crate::gen::{shaped_set, ASTRAL, PLAIN};
use crate::model::{panic_message, Cfg};
use grex::wasm_native::RegExpBuilder as W;
use rand::rngs::StdRng;
use rand::Rng;
use serde_json::{json, Value};
use std::collections::HashMap;
use std::panic::{catch_unwind, AssertUnwindSafe};
use wasm_bindgen::JsValue;

fn js_err(v: JsValue) -> String {
    v.as_string().unwrap_or_else(|| "<non-string error>".to_string())
}

fn call(w: &mut W, name: &str, arg: i64) -> Result<W, String> {
    Ok(match name {
        "digit" => w.withConversionOfDigits(),
        "nondigit" => w.withConversionOfNonDigits(),
        "space" => w.withConversionOfWhitespace(),
        "nonspace" => w.withConversionOfNonWhitespace(),
        "word" => w.withConversionOfWords(),
        "nonword" => w.withConversionOfNonWords(),
        "rep" => w.withConversionOfRepetitions(),
        "icase" => w.withCaseInsensitiveMatching(),
        "capture" => w.withCapturingGroups(),
        "verbose" => w.withVerboseMode(),
        "nostart" => w.withoutStartAnchor(),
        "noend" => w.withoutEndAnchor(),
        "noanchors" => w.withoutAnchors(),
        "escape" => w.withEscapingOfNonAsciiChars(arg == 1),
        "minrep" => w.withMinimumRepetitions(arg.max(0) as u32).map_err(js_err)?,
        "minsub" => w.withMinimumSubstringLength(arg.max(0) as u32).map_err(js_err)?,
        _ => panic!("setter {}", name),
    })
}

/// plan: {"h", "array": [ {"s": "..."} | {"n": 1.5} | null ... ], "ops": [...]}
pub fn wasm_plan(rng: &mut StdRng, h: usize) -> Value {
    let mut letters: Vec<&str> = PLAIN.to_vec();
    letters.push(ASTRAL[rng.gen_range(0..ASTRAL.len())]);
    letters.push(["1", " ", "(", "A", "\u{e9}"][rng.gen_range(0..5)]);
    let list = shaped_set(rng, &letters, 4, 3);
    let mut array: Vec<Value> = list.iter().map(|s| json!({"s": s})).collect();
    // JavaScript arrays may hold non-strings: they are dropped by the wrapper
    for _ in 0..rng.gen_range(0..=2) {
        let pos = rng.gen_range(0..=array.len());
        array.insert(pos, if rng.gen_bool(0.5) { json!({"n": 42.0}) } else { Value::Null });
    }
    if rng.gen_bool(0.04) {
        array.retain(|v| v.get("s").is_none());
    }
    let mut ops = vec![];
    let mut live = vec![1usize];
    let mut next = 2;
    for _ in 0..rng.gen_range(1..9) {
        let o = live[rng.gen_range(0..live.len())];
        if rng.gen_bool(0.3) {
            ops.push(json!({"op": "build", "o": o}));
        } else {
            let names: Vec<&str> = SETTERS.iter().copied().filter(|n| *n != "color").collect();
            let name = names[rng.gen_range(0..names.len())];
            let arg: i64 = match name {
                "escape" => rng.gen_range(0..=1),
                "minrep" | "minsub" => [1, 2, 3, 0][rng.gen_range(0..4)],
                _ => 0,
            };
            ops.push(json!({"op": "set", "o": o, "name": name, "arg": arg, "ret": next}));
            live.push(next);
            next += 1;
        }
    }
    for &o in live.iter().rev().take(2) {
        ops.push(json!({"op": "build", "o": o}));
    }
    ops.push(json!({"op": "build", "o": 1}));
    json!({"h": h, "array": array, "ops": ops})
}

pub fn run_wasm_history(plan: &Value) -> (Value, Value) {
    let h = plan["h"].as_u64().unwrap() as usize;
    let array: Vec<JsValue> = plan["array"]
        .as_array()
        .unwrap()
        .iter()
        .map(|v| {
            if let Some(s) = v.get("s").and_then(|s| s.as_str()) {
                JsValue::from_str(s)
            } else if let Some(n) = v.get("n").and_then(|n| n.as_f64()) {
                JsValue::Number(n)
            } else {
                JsValue::Null
            }
        })
        .collect();
    let list: Vec<String> = array.iter().filter_map(|v| v.as_string()).collect();
    let mut objs: HashMap<usize, W> = HashMap::new();
    let mut belief: HashMap<usize, Cfg> = HashMap::new();
    let mut intern = Interner::new();
    let mut evops = vec![];
    let mut outs = vec![];
    let created = catch_unwind(AssertUnwindSafe(|| W::from(array.clone().into_boxed_slice())));
    match created {
        Ok(Ok(w)) => {
            objs.insert(1, w);
            belief.insert(1, Cfg::default());
            evops.push(json!({"op": "new", "o": 1, "set": 1, "n": list.len(), "ok": true, "msg": ""}));
        }
        Ok(Err(e)) => {
            evops.push(json!({"op": "new", "o": 1, "set": 1, "n": list.len(), "ok": false, "msg": js_err(e)}));
        }
        Err(p) => {
            evops.push(json!({"op": "new", "o": 1, "set": 1, "n": list.len(), "ok": false,
                              "msg": format!("TRAP {}", crate::emit::ascii_only(&panic_message(p)))}));
        }
    }
    if objs.contains_key(&1) {
        for op in plan["ops"].as_array().unwrap() {
            let o = op["o"].as_u64().unwrap() as usize;
            if !objs.contains_key(&o) {
                continue;
            }
            if op["op"] == "set" {
                let name = op["name"].as_str().unwrap();
                let arg = op["arg"].as_i64().unwrap_or(0);
                let ret = op["ret"].as_u64().unwrap() as usize;
                let r = {
                    let w = objs.get_mut(&o).unwrap();
                    catch_unwind(AssertUnwindSafe(|| call(w, name, arg)))
                };
                match r {
                    Ok(Ok(copy)) => {
                        objs.insert(ret, copy);
                        let mut c = belief.get(&o).unwrap().clone();
                        believe(&mut c, name, arg);
                        belief.insert(o, c.clone());
                        belief.insert(ret, c);
                        evops.push(json!({"op": "set", "o": o, "name": name, "arg": arg, "ret": ret, "ok": true, "msg": ""}));
                    }
                    Ok(Err(msg)) => {
                        evops.push(json!({"op": "set", "o": o, "name": name, "arg": arg, "ret": ret, "ok": false, "msg": msg}));
                    }
                    Err(p) => {
                        evops.push(json!({"op": "set", "o": o, "name": name, "arg": arg, "ret": ret, "ok": false,
                                          "msg": format!("TRAP {}", crate::emit::ascii_only(&panic_message(p)))}));
                    }
                }
            } else {
                let r = {
                    let w = objs.get_mut(&o).unwrap();
                    catch_unwind(AssertUnwindSafe(|| w.build()))
                };
                let cfg = belief.get(&o).unwrap().clone();
                match r {
                    Ok(out) => {
                        let lib = lib_out(&list, &cfg).unwrap_or_else(|e| format!("PANIC {}", e));
                        evops.push(json!({"op": "build", "o": o, "ok": true, "msg": "", "cfg": cfg.to_json(),
                                          "sid": intern.id(&out), "libsid": intern.id(&lib)}));
                        outs.push(json!({"o": o, "out": out, "lib": lib}));
                    }
                    Err(p) => {
                        evops.push(json!({"op": "build", "o": o, "ok": false,
                                          "msg": format!("TRAP {}", crate::emit::ascii_only(&panic_message(p))),
                                          "cfg": cfg.to_json(), "sid": 0, "libsid": 0}));
                    }
                }
            }
        }
    }
    (
        json!({"ev": "hist", "front": "wasm", "h": h, "ops": evops}),
        json!({"h": h, "kind": "hist-wasm", "plan": plan, "outputs": outs}),
    )
}

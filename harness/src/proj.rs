//! Projection of Unicode scalar-value sets onto "atoms" (DESIGN.md §4.3).
//!
//! A `CharSet` is a sorted list of disjoint, non-adjacent closed ranges of scalar values
//! (surrogates never occur). Given all the sets that occur in a run group, `Atoms::compute`
//! builds the coarsest partition of the scalar-value space that respects every one of them, so
//! that each set is a union of atoms and language equality over atom ids is equivalent to
//! language equality over all 1 112 064 scalar values.
//!
//! The partition is computed by one sweep over the sorted range end points of all sets; the
//! signature of an elementary interval is the set of sets that contain it, atoms are the
//! classes of equal signature. The twelve class sets (\d \w \s, negations, (?i) closures) are
//! large (hundreds of ranges) and identical in every group, so their sweep ("base partition")
//! is computed once per process and merged with the group's few small sets.

use std::collections::HashMap;
use std::sync::OnceLock;

pub const MAX_CP: u32 = 0x10FFFF;
pub const N_SCALARS: u64 = 0x110000 - 0x800;

#[derive(Clone, Debug, PartialEq, Eq, Hash, Default)]
pub struct CharSet(pub Vec<(u32, u32)>);

impl CharSet {
    pub fn empty() -> Self {
        CharSet(vec![])
    }
    pub fn single(c: char) -> Self {
        CharSet(vec![(c as u32, c as u32)])
    }
    pub fn all() -> Self {
        CharSet(vec![(0, 0xD7FF), (0xE000, MAX_CP)])
    }
    pub fn from_ranges(mut r: Vec<(u32, u32)>) -> Self {
        // remove surrogates, normalise
        let mut cleaned = vec![];
        for (a, b) in r.drain(..) {
            if a > b {
                continue;
            }
            if b < 0xD800 || a > 0xDFFF {
                cleaned.push((a, b));
            } else {
                if a < 0xD800 {
                    cleaned.push((a, 0xD7FF));
                }
                if b > 0xDFFF {
                    cleaned.push((0xE000, b));
                }
            }
        }
        cleaned.sort();
        let mut out: Vec<(u32, u32)> = vec![];
        for (a, b) in cleaned {
            if let Some(last) = out.last_mut() {
                if a <= last.1.saturating_add(1) {
                    if b > last.1 {
                        last.1 = b;
                    }
                    continue;
                }
            }
            out.push((a, b));
        }
        CharSet(out)
    }
    pub fn from_chars<I: IntoIterator<Item = char>>(it: I) -> Self {
        Self::from_ranges(it.into_iter().map(|c| (c as u32, c as u32)).collect())
    }
    pub fn contains(&self, c: u32) -> bool {
        self.0
            .binary_search_by(|&(a, b)| {
                if c < a {
                    std::cmp::Ordering::Greater
                } else if c > b {
                    std::cmp::Ordering::Less
                } else {
                    std::cmp::Ordering::Equal
                }
            })
            .is_ok()
    }
    pub fn is_empty(&self) -> bool {
        self.0.is_empty()
    }
    pub fn count(&self) -> u64 {
        self.0.iter().map(|&(a, b)| (b - a + 1) as u64).sum()
    }
    pub fn union(&self, other: &CharSet) -> CharSet {
        let mut v = self.0.clone();
        v.extend_from_slice(&other.0);
        CharSet::from_ranges(v)
    }
    pub fn complement(&self) -> CharSet {
        let mut out = vec![];
        let mut next = 0u32;
        for &(a, b) in &self.0 {
            if a > next {
                out.push((next, a - 1));
            }
            next = b + 1;
        }
        if next <= MAX_CP {
            out.push((next, MAX_CP));
        }
        CharSet::from_ranges(out)
    }
    pub fn min(&self) -> Option<u32> {
        self.0.first().map(|r| r.0)
    }
}

/// Interning table of sets.
#[derive(Default)]
pub struct SetTable {
    pub sets: Vec<CharSet>,
    index: HashMap<CharSet, usize>,
}

impl SetTable {
    pub fn new() -> Self {
        Self::default()
    }
    pub fn intern(&mut self, s: CharSet) -> usize {
        if let Some(&i) = self.index.get(&s) {
            return i;
        }
        let i = self.sets.len();
        self.index.insert(s.clone(), i);
        self.sets.push(s);
        i
    }
}

/// Elementary intervals [start, end] (surrogates excluded) with a signature id each.
struct Sweep {
    pieces: Vec<(u32, u32, u32)>,
    /// signature id -> indices (into the input slice) of the sets containing it
    sigs: Vec<Vec<u32>>,
}

fn sweep(sets: &[&CharSet]) -> Sweep {
    // events: (position, set index, +1 enter / -1 leave)
    let mut events: Vec<(u32, u32, bool)> = vec![];
    for (i, s) in sets.iter().enumerate() {
        for &(a, b) in &s.0 {
            events.push((a, i as u32, true));
            events.push((b + 1, i as u32, false));
        }
    }
    events.sort();
    let mut active: Vec<bool> = vec![false; sets.len()];
    let mut sig_ids: HashMap<Vec<u32>, u32> = HashMap::new();
    let mut sigs: Vec<Vec<u32>> = vec![];
    let mut pieces: Vec<(u32, u32, u32)> = vec![];
    let mut pos = 0u32;
    let mut k = 0;
    let mut emit = |from: u32, to: u32, active: &Vec<bool>, pieces: &mut Vec<(u32, u32, u32)>| {
        if from > to {
            return;
        }
        let sig: Vec<u32> = active.iter().enumerate().filter(|(_, &a)| a).map(|(i, _)| i as u32).collect();
        let next = sigs.len() as u32;
        let id = *sig_ids.entry(sig.clone()).or_insert_with(|| {
            sigs.push(sig);
            next
        });
        // split around the surrogate gap
        let mut push = |a: u32, b: u32| {
            if a <= b {
                if let Some(last) = pieces.last_mut() {
                    if last.2 == id && last.1 + 1 == a {
                        last.1 = b;
                        return;
                    }
                }
                pieces.push((a, b, id));
            }
        };
        if to < 0xD800 || from > 0xDFFF {
            push(from, to);
        } else {
            if from < 0xD800 {
                push(from, 0xD7FF);
            }
            if to > 0xDFFF {
                push(0xE000, to);
            }
        }
    };
    while k < events.len() {
        let p = events[k].0;
        if p > pos {
            emit(pos, p - 1, &active, &mut pieces);
            pos = p;
        }
        while k < events.len() && events[k].0 == p {
            active[events[k].1 as usize] = events[k].2;
            k += 1;
        }
    }
    if pos <= MAX_CP {
        emit(pos, MAX_CP, &active, &mut pieces);
    }
    Sweep { pieces, sigs }
}

/// the big class sets and their sweep, computed once
struct Base {
    sets: Vec<CharSet>,
    sweep: Sweep,
}

fn base() -> &'static Base {
    static B: OnceLock<Base> = OnceLock::new();
    B.get_or_init(|| {
        let c = crate::sem::classes();
        let sets: Vec<CharSet> = vec![
            c.d.clone(), c.w.clone(), c.s.clone(), c.nd.clone(), c.nw.clone(), c.ns.clone(),
            c.di.clone(), c.wi.clone(), c.si.clone(), c.ndi.clone(), c.nwi.clone(), c.nsi.clone(),
        ];
        let refs: Vec<&CharSet> = sets.iter().collect();
        let sw = sweep(&refs);
        Base { sets, sweep: sw }
    })
}

pub struct Atoms {
    /// number of atoms; ids in traces are 1..=n, ordered by minimum element
    pub n: usize,
    pub mins: Vec<u32>,
    pub counts: Vec<u64>,
    /// for each interned set, the sorted list of atom ids (1-based)
    pub set_atoms: Vec<Vec<u32>>,
}

impl Atoms {
    pub fn len(&self) -> usize {
        self.n
    }

    pub fn compute(table: &SetTable) -> Atoms {
        let b = base();
        // which interned sets are base (class) sets?
        let mut base_of: Vec<Option<usize>> = vec![None; table.sets.len()];
        let mut small_idx: Vec<usize> = vec![];
        let mut any_base = false;
        for (i, s) in table.sets.iter().enumerate() {
            if s.0.len() > 8 {
                if let Some(p) = b.sets.iter().position(|x| x == s) {
                    base_of[i] = Some(p);
                    any_base = true;
                    continue;
                }
            }
            small_idx.push(i);
        }
        let small_refs: Vec<&CharSet> = small_idx.iter().map(|&i| &table.sets[i]).collect();
        let small = sweep(&small_refs);
        // merge the two sweeps: classes of (base signature, small signature)
        let single_base = Sweep { pieces: vec![(0, 0xD7FF, 0), (0xE000, MAX_CP, 0)], sigs: vec![vec![]] };
        let bs: &Sweep = if any_base { &b.sweep } else { &single_base };
        let mut pair_ids: HashMap<(u32, u32), usize> = HashMap::new();
        let mut mins: Vec<u32> = vec![];
        let mut counts: Vec<u64> = vec![];
        let mut pairs: Vec<(u32, u32)> = vec![];
        let (mut i, mut j) = (0usize, 0usize);
        while i < bs.pieces.len() && j < small.pieces.len() {
            let (a1, b1, s1) = bs.pieces[i];
            let (a2, b2, s2) = small.pieces[j];
            let lo = a1.max(a2);
            let hi = b1.min(b2);
            if lo <= hi {
                let id = *pair_ids.entry((s1, s2)).or_insert_with(|| {
                    mins.push(lo);
                    counts.push(0);
                    pairs.push((s1, s2));
                    mins.len() - 1
                });
                counts[id] += (hi - lo + 1) as u64;
            }
            if b1 <= b2 {
                i += 1;
            }
            if b2 <= b1 {
                j += 1;
            }
        }
        // order atoms by minimum element
        let mut order: Vec<usize> = (0..mins.len()).collect();
        order.sort_by_key(|&k| mins[k]);
        let mut new_id = vec![0u32; mins.len()];
        for (n, &k) in order.iter().enumerate() {
            new_id[k] = n as u32 + 1;
        }
        let mut set_atoms: Vec<Vec<u32>> = vec![vec![]; table.sets.len()];
        for (k, &(s1, s2)) in pairs.iter().enumerate() {
            // small sets containing this atom
            for &si in &small.sigs[s2 as usize] {
                set_atoms[small_idx[si as usize]].push(new_id[k]);
            }
            if any_base {
                let bsig = &bs.sigs[s1 as usize];
                for (t, bo) in base_of.iter().enumerate() {
                    if let Some(p) = bo {
                        if bsig.contains(&(*p as u32)) {
                            set_atoms[t].push(new_id[k]);
                        }
                    }
                }
            }
        }
        for v in set_atoms.iter_mut() {
            v.sort();
        }
        Atoms {
            n: mins.len(),
            mins: order.iter().map(|&k| mins[k]).collect(),
            counts: order.iter().map(|&k| counts[k]).collect(),
            set_atoms,
        }
    }

    /// Self-check (DESIGN.md §4.3). Atoms are disjoint by construction (classes of a sweep);
    /// they must cover all scalar values, every interned set must have exactly the size of
    /// the union of its atoms, and every atom's minimum must lie in the sets that list it and in
    /// no other set (membership is uniform on an atom).
    pub fn self_check(&self, table: &SetTable) -> Result<(), String> {
        let total: u64 = self.counts.iter().sum();
        if total != N_SCALARS {
            return Err(format!("atoms cover {} scalar values", total));
        }
        for (i, s) in table.sets.iter().enumerate() {
            let sum: u64 = self.set_atoms[i].iter().map(|&k| self.counts[k as usize - 1]).sum();
            if sum != s.count() {
                return Err(format!("set {} has {} members but its atoms {}", i, s.count(), sum));
            }
            for k in 1..=self.n as u32 {
                let listed = self.set_atoms[i].binary_search(&k).is_ok();
                if s.contains(self.mins[k as usize - 1]) != listed {
                    return Err(format!("atom {} membership in set {} inconsistent", k, i));
                }
            }
        }
        Ok(())
    }
}

#[cfg(test)]
mod tests {
    use super::*;
    #[test]
    fn atoms_basic() {
        let mut t = SetTable::new();
        t.intern(CharSet::single('a'));
        t.intern(CharSet::from_ranges(vec![('a' as u32, 'z' as u32)]));
        t.intern(CharSet::from_ranges(vec![('a' as u32, 'z' as u32)]).complement());
        let a = Atoms::compute(&t);
        a.self_check(&t).unwrap();
        assert_eq!(a.n, 3);
    }
}

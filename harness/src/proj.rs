//! Projection of Unicode scalar-value sets onto "atoms" (DESIGN.md §4.3).
//!
//! A `CharSet` is a sorted list of disjoint, non-adjacent closed ranges of scalar values
//! (surrogates never occur). Given all the sets that occur in a run group, `Atoms::compute`
//! builds the coarsest partition of the scalar-value space that respects every one of them, so
//! that each set is a union of atoms and language equality over atom ids is equivalent to
//! language equality over all 1 112 064 scalar values.

use std::collections::HashMap;

pub const MAX_CP: u32 = 0x10FFFF;

#[derive(Clone, Debug, PartialEq, Eq, Hash, Default)]
pub struct CharSet(pub Vec<(u32, u32)>);

fn is_surrogate(c: u32) -> bool {
    (0xD800..=0xDFFF).contains(&c)
}

impl CharSet {
    pub fn empty() -> Self {
        CharSet(vec![])
    }
    pub fn single(c: char) -> Self {
        CharSet(vec![(c as u32, c as u32)])
    }
    pub fn all() -> Self {
        CharSet(vec![(0, 0xD7FF), (0xE000, MAX_CP)])
    }
    pub fn from_ranges(mut r: Vec<(u32, u32)>) -> Self {
        // remove surrogates, normalise
        let mut cleaned = vec![];
        for (a, b) in r.drain(..) {
            if a > b {
                continue;
            }
            if b < 0xD800 || a > 0xDFFF {
                cleaned.push((a, b));
            } else {
                if a < 0xD800 {
                    cleaned.push((a, 0xD7FF));
                }
                if b > 0xDFFF {
                    cleaned.push((0xE000, b));
                }
            }
        }
        cleaned.sort();
        let mut out: Vec<(u32, u32)> = vec![];
        for (a, b) in cleaned {
            if let Some(last) = out.last_mut() {
                // adjacent (also across the surrogate gap is NOT merged: keep ranges real)
                if a <= last.1.saturating_add(1) {
                    if b > last.1 {
                        last.1 = b;
                    }
                    continue;
                }
            }
            out.push((a, b));
        }
        CharSet(out)
    }
    pub fn from_chars<I: IntoIterator<Item = char>>(it: I) -> Self {
        Self::from_ranges(it.into_iter().map(|c| (c as u32, c as u32)).collect())
    }
    pub fn contains(&self, c: u32) -> bool {
        self.0
            .binary_search_by(|&(a, b)| {
                if c < a {
                    std::cmp::Ordering::Greater
                } else if c > b {
                    std::cmp::Ordering::Less
                } else {
                    std::cmp::Ordering::Equal
                }
            })
            .is_ok()
    }
    pub fn is_empty(&self) -> bool {
        self.0.is_empty()
    }
    pub fn count(&self) -> u64 {
        self.0.iter().map(|&(a, b)| (b - a + 1) as u64).sum()
    }
    pub fn union(&self, other: &CharSet) -> CharSet {
        let mut v = self.0.clone();
        v.extend_from_slice(&other.0);
        CharSet::from_ranges(v)
    }
    pub fn complement(&self) -> CharSet {
        let mut out = vec![];
        let mut next = 0u32;
        for &(a, b) in &self.0 {
            if a > next {
                out.push((next, a - 1));
            }
            next = b + 1;
        }
        if next <= MAX_CP {
            out.push((next, MAX_CP));
        }
        CharSet::from_ranges(out)
    }
    pub fn min(&self) -> Option<u32> {
        self.0.first().map(|r| r.0)
    }
}

/// Interning table of sets + the computed atom partition.
#[derive(Default)]
pub struct SetTable {
    pub sets: Vec<CharSet>,
    index: HashMap<CharSet, usize>,
}

impl SetTable {
    pub fn new() -> Self {
        Self::default()
    }
    pub fn intern(&mut self, s: CharSet) -> usize {
        if let Some(&i) = self.index.get(&s) {
            return i;
        }
        let i = self.sets.len();
        self.index.insert(s.clone(), i);
        self.sets.push(s);
        i
    }
}

pub struct Atoms {
    /// atoms[k] = the k-th atom (0-based here; ids in traces are k+1), ordered by minimum
    pub atoms: Vec<CharSet>,
    /// for each interned set, the sorted list of atom ids (1-based)
    pub set_atoms: Vec<Vec<u32>>,
}

impl Atoms {
    pub fn compute(table: &SetTable) -> Atoms {
        // boundaries: a point p is a boundary if some range starts at p or ends at p-1
        let mut cuts: Vec<u32> = vec![0, 0xD800, 0xE000, MAX_CP + 1];
        for s in &table.sets {
            for &(a, b) in &s.0 {
                cuts.push(a);
                cuts.push(b + 1);
            }
        }
        cuts.sort();
        cuts.dedup();
        // elementary intervals [cuts[i], cuts[i+1]-1] (skip surrogates)
        let mut sig_to_atom: HashMap<Vec<u32>, usize> = HashMap::new();
        let mut atom_ranges: Vec<Vec<(u32, u32)>> = vec![];
        let mut atom_sigs: Vec<Vec<u32>> = vec![];
        for w in cuts.windows(2) {
            let (a, b) = (w[0], w[1] - 1);
            if is_surrogate(a) {
                continue;
            }
            let mut sig = vec![];
            for (i, s) in table.sets.iter().enumerate() {
                if s.contains(a) {
                    sig.push(i as u32);
                }
            }
            let k = *sig_to_atom.entry(sig.clone()).or_insert_with(|| {
                atom_ranges.push(vec![]);
                atom_sigs.push(sig);
                atom_ranges.len() - 1
            });
            atom_ranges[k].push((a, b));
        }
        // order atoms by minimum element
        let mut order: Vec<usize> = (0..atom_ranges.len()).collect();
        order.sort_by_key(|&k| atom_ranges[k][0].0);
        let mut atoms = vec![];
        let mut set_atoms: Vec<Vec<u32>> = vec![vec![]; table.sets.len()];
        for (new_id, &k) in order.iter().enumerate() {
            atoms.push(CharSet::from_ranges(atom_ranges[k].clone()));
            for &si in &atom_sigs[k] {
                set_atoms[si as usize].push(new_id as u32 + 1);
            }
        }
        Atoms { atoms, set_atoms }
    }

    /// Self-check (DESIGN.md §4.3): atoms are pairwise disjoint, cover all scalar values, and
    /// every interned set equals the union of its atoms.
    pub fn self_check(&self, table: &SetTable) -> Result<(), String> {
        let total: u64 = self.atoms.iter().map(|a| a.count()).sum();
        if total != CharSet::all().count() {
            return Err(format!("atoms cover {} scalar values", total));
        }
        let mut all = CharSet::empty();
        for a in &self.atoms {
            all = all.union(a);
        }
        if all != CharSet::all() {
            return Err("atoms do not cover the scalar value space".into());
        }
        for (i, s) in table.sets.iter().enumerate() {
            let mut u = CharSet::empty();
            for &k in &self.set_atoms[i] {
                u = u.union(&self.atoms[k as usize - 1]);
            }
            if &u != s {
                return Err(format!("set {} is not the union of its atoms", i));
            }
        }
        Ok(())
    }
}

#[cfg(test)]
mod tests {
    use super::*;
    #[test]
    fn atoms_basic() {
        let mut t = SetTable::new();
        t.intern(CharSet::single('a'));
        t.intern(CharSet::from_ranges(vec![('a' as u32, 'z' as u32)]));
        t.intern(CharSet::from_ranges(vec![('a' as u32, 'z' as u32)]).complement());
        let a = Atoms::compute(&t);
        a.self_check(&t).unwrap();
        assert_eq!(a.atoms.len(), 3);
    }
}

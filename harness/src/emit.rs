//! Turning the raw results of a run group (one set of test cases, a family of settings /
//! list orders / schedules) into the NDJSON events of DESIGN.md Appendix A, projected to atoms.

use crate::model::{Cfg, RunRaw};
use crate::parse::{ast_facts, char_offset, hir_to_spec, parse_hir, set_ref};
use crate::proj::{Atoms, CharSet, SetTable};
use crate::sem::{classes, fold_closure, fold_orbit, token_set};
use grex::verif::{Event, VExpr, VGrapheme, VGraph};
use regex::Regex;
use serde_json::{json, Map, Value};
use std::collections::HashMap;

#[derive(Clone, Debug, PartialEq)]
pub enum Tok {
    Lit(char),
    Class(char),
}

/// All ways of reading `conv` as the class-converted image of the characters `orig`
/// (each character either kept or replaced by one of the six class tokens).
fn dp_parse(orig: &[char], conv: &[char], out: &mut Vec<Tok>, results: &mut Vec<Vec<Tok>>) {
    if results.len() > 1 {
        return;
    }
    if orig.is_empty() {
        if conv.is_empty() {
            results.push(out.clone());
        }
        return;
    }
    // keeping needs len(conv) >= len(orig); every conversion adds exactly one char
    if conv.len() < orig.len() || conv.len() > 2 * orig.len() {
        return;
    }
    let c = orig[0];
    if conv[0] == c {
        out.push(Tok::Lit(c));
        dp_parse(&orig[1..], &conv[1..], out, results);
        out.pop();
    }
    if conv.len() >= 2 && conv[0] == '\\' && "dwsDWS".contains(conv[1]) {
        out.push(Tok::Class(conv[1]));
        dp_parse(&orig[1..], &conv[2..], out, results);
        out.pop();
    }
}

pub fn tokenize(orig: &str, conv: &str) -> Result<Vec<Tok>, String> {
    let o: Vec<char> = orig.chars().collect();
    let c: Vec<char> = conv.chars().collect();
    let mut results = vec![];
    dp_parse(&o, &c, &mut vec![], &mut results);
    match results.len() {
        0 => Err(format!("no reading of {:?} as image of {:?}", conv, orig)),
        1 => Ok(results.pop().unwrap()),
        _ => {
            // ambiguous only if the original contains a literal backslash followed by a class
            // letter; prefer the reading with the fewest conversions at the front (first found)
            Err(format!("ambiguous reading of {:?} as image of {:?}", conv, orig))
        }
    }
}

#[derive(Default)]
pub struct Notes {
    pub notes: Vec<String>,
}

struct RunCtx<'a> {
    cfg: &'a Cfg,
    tokmap: HashMap<String, Vec<Tok>>,
    notes: Vec<String>,
    /// label texts of this run in order of first appearance (the identity of a symbol, see Algo!Val)
    labels: HashMap<String, usize>,
}

impl<'a> RunCtx<'a> {
    fn toks_of(&mut self, s: &str) -> Vec<Tok> {
        if let Some(t) = self.tokmap.get(s) {
            return t.clone();
        }
        // fallback: context-free reading
        let cs: Vec<char> = s.chars().collect();
        let mut out = vec![];
        let mut i = 0;
        while i < cs.len() {
            if self.cfg.any_class() && cs[i] == '\\' && i + 1 < cs.len() && "dwsDWS".contains(cs[i + 1])
            {
                out.push(Tok::Class(cs[i + 1]));
                i += 2;
            } else {
                out.push(Tok::Lit(cs[i]));
                i += 1;
            }
        }
        if self.cfg.any_class() {
            self.notes.push(format!("fallback tokenisation of {:?}", s));
        }
        out
    }

    fn pos_set(&self, t: &Tok, table: &mut SetTable) -> Value {
        match t {
            Tok::Lit(c) => {
                if self.cfg.icase {
                    set_ref(table, fold_orbit(*c))
                } else {
                    set_ref(table, CharSet::single(*c))
                }
            }
            Tok::Class(k) => set_ref(table, token_set(*k, self.cfg.icase).clone()),
        }
    }

    fn sym(&mut self, g: &VGrapheme, table: &mut SetTable) -> Value {
        let mut u = vec![];
        for s in &g.chars {
            for t in self.toks_of(s) {
                u.push(self.pos_set(&t, table));
            }
        }
        let nest: Vec<Value> = g.repetitions.iter().map(|x| self.sym(x, table)).collect();
        if self.cfg.icase || self.cfg.any_class() {
            // the code tells labels apart by their text; two labels may denote the same sets
            let n = self.labels.len() + 1;
            let k = *self.labels.entry(format!("{:?}", g.chars)).or_insert(n);
            return json!({"u": u, "lo": g.min, "hi": g.max, "nest": nest, "k": k});
        }
        json!({"u": u, "lo": g.min, "hi": g.max, "nest": nest})
    }

    fn graph(&mut self, g: &VGraph, table: &mut SetTable) -> Value {
        let mut syms: Vec<Value> = vec![];
        let mut sym_index: HashMap<String, usize> = HashMap::new();
        let mut edges = vec![];
        for (s, d, lab) in &g.edges {
            let v = self.sym(lab, table);
            // a symbol's identity is its label text (value, min, max), not its denotation: under
            // (?i) two different labels (e.g. final and non-final sigma) may denote the same set
            let key = format!("{:?}", lab);
            let k = *sym_index.entry(key).or_insert_with(|| {
                syms.push(v);
                syms.len()
            });
            edges.push(json!([s, d, k]));
        }
        // adjacency index: adj[s] = edges leaving node s (nodes are numbered 0..n-1 by petgraph)
        let n = g.nodes.iter().copied().max().map(|m| m + 1).unwrap_or(0);
        let mut adj: Vec<Vec<Value>> = vec![vec![]; n];
        for e in &edges {
            let s = e[0].as_u64().unwrap() as usize;
            adj[s].push(e.clone());
        }
        let contiguous = g.nodes.len() == n;
        let mut v = json!({"start": g.start, "finals": g.finals, "nodes": g.nodes, "edges": edges, "syms": syms,
               "order": g.dfs_order});
        if contiguous {
            v["adj"] = json!(adj);
        }
        v
    }

    fn expr(&mut self, e: &VExpr, table: &mut SetTable) -> Value {
        match e {
            VExpr::Alternation(xs) => {
                json!({"t": "alt", "xs": xs.iter().map(|x| self.expr(x, table)).collect::<Vec<_>>()})
            }
            VExpr::CharacterClass(cs) => {
                let s = CharSet::from_chars(cs.iter().copied());
                let s = if self.cfg.icase { fold_closure(&s) } else { s };
                json!({"t": "cls", "s": set_ref(table, s)})
            }
            VExpr::Concatenation(a, b) => {
                json!({"t": "cat", "xs": [self.expr(a, table), self.expr(b, table)]})
            }
            VExpr::Literal(gs) => {
                json!({"t": "lit", "syms": gs.iter().map(|g| self.sym(g, table)).collect::<Vec<_>>()})
            }
            VExpr::Repetition(x, q) => {
                let hi: i64 = if *q == '?' { 1 } else { -1 };
                json!({"t": "rep", "x": self.expr(x, table), "lo": 0, "hi": hi, "g": true})
            }
        }
    }
}

/// One abstract character of a test case. `lowc` is the character at the same position of the
/// lower-cased test case (str::to_lowercase is context sensitive: final sigma), if lower-casing keeps
/// the number of code points.
fn cell(c: char, lowc: Option<char>, with_fold: bool, table: &mut SetTable) -> Value {
    let cl = classes();
    let cp = c as u32;
    let lit = set_ref(table, CharSet::single(c));
    let fold = if with_fold {
        set_ref(table, fold_orbit(c))
    } else {
        lit.clone()
    };
    // "ls": lower-casing is stable for the (?i) semantics of the regex crate - the lower-case form is a
    // character the crate folds together with c (so the code may, and must, lower-case it)
    let ls = match lowc {
        Some(l) => fold_orbit(c).contains(l as u32),
        None => false,
    };
    let lowset = match lowc {
        Some(l) if with_fold && ls => set_ref(table, CharSet::single(l)),
        _ => lit.clone(),
    };
    json!({"lit": lit, "fold": fold, "d": cl.d.contains(cp), "w": cl.w.contains(cp), "s": cl.s.contains(cp),
           "ls": ls, "low": lowset})
}

fn word_cells(s: &str, with_fold: bool, table: &mut SetTable) -> Vec<Value> {
    use unic_ucd_category::GeneralCategory;
    use unicode_segmentation::UnicodeSegmentation;
    let lower: Vec<char> = s.to_lowercase().chars().collect();
    let same_count = lower.len() == s.chars().count();
    // S3 oracle (Algo!SegmentLens): "gb" - an extended grapheme cluster starts at this character (the segmentation
    // crate's tables), "sp" - general category Mark or Other (the category crate's tables), "bs" - backslash.
    // The RULE that combines them is the specification's.
    let mut starts = std::collections::HashSet::new();
    let mut k = 0;
    for g in UnicodeSegmentation::graphemes(s, true) {
        starts.insert(k);
        k += g.chars().count();
    }
    s.chars()
        .enumerate()
        .map(|(i, c)| {
            let mut v = cell(c, if same_count { Some(lower[i]) } else { None }, with_fold, table);
            let cat = GeneralCategory::of(c);
            v["gb"] = json!(starts.contains(&i));
            v["sp"] = json!(cat.is_mark() || cat.is_other());
            v["bs"] = json!(c == '\\');
            v
        })
        .collect()
}

/// Tokens of an escaped output: [0, cp] raw code point, [1, value] a \u{value} escape, [2, value] marker in
/// front of the raw text of an escape in another notation.
pub fn esc_tokens(s: &str) -> Vec<(u8, u32)> {
    let cs: Vec<char> = s.chars().collect();
    let mut out = vec![];
    let mut i = 0;
    while i < cs.len() {
        if cs[i] == '\\' && i + 2 < cs.len() && cs[i + 1] == 'u' && cs[i + 2] == '{' {
            let mut j = i + 3;
            let mut val: u64 = 0;
            let mut digits = 0;
            while j < cs.len() && cs[j].is_ascii_hexdigit() && digits < 8 {
                val = val * 16 + cs[j].to_digit(16).unwrap() as u64;
                j += 1;
                digits += 1;
            }
            if j < cs.len() && cs[j] == '}' && digits > 0 {
                // uppercase hex digits or leading zeros would make re-encoding differ; keep the
                // literal text faithful by recording them as raw when not canonical
                let canonical = format!("{:x}", val);
                let text: String = cs[i + 3..j].iter().collect();
                if text == canonical {
                    out.push((1, val as u32));
                    i = j + 1;
                    continue;
                }
            }
        }
        if cs[i] == '\\' && i + 1 < cs.len() && matches!(cs[i + 1], 'u' | 'x' | 'U') {
            // an escape of a code point in any OTHER notation the regex syntax knows (\uXXXX, \xHH, \UXXXXXXXX,
            // \x{..}, a \u{..} with upper-case digits or leading zeros): a marker token [2, value] in front of
            // its raw text, so that the specification can tell it from literal text
            let hex = |from: usize, n: usize| -> Option<u64> {
                if from + n > cs.len() || !cs[from..from + n].iter().all(|c| c.is_ascii_hexdigit()) {
                    return None;
                }
                Some(cs[from..from + n].iter().fold(0u64, |a, c| a * 16 + c.to_digit(16).unwrap() as u64))
            };
            let val = if i + 2 < cs.len() && cs[i + 2] == '{' && cs[i + 1] != 'U' {
                let mut j = i + 3;
                while j < cs.len() && cs[j].is_ascii_hexdigit() && j - i < 12 {
                    j += 1;
                }
                if j < cs.len() && cs[j] == '}' && j > i + 3 { hex(i + 3, j - i - 3) } else { None }
            } else {
                match cs[i + 1] {
                    'u' => hex(i + 2, 4),
                    'x' => hex(i + 2, 2),
                    _ => hex(i + 2, 8),
                }
            };
            if let Some(v) = val {
                out.push((2, v.min(0x7fff_ffff) as u32));
            }
        }
        if cs[i] == '\\' && i + 1 < cs.len() && cs[i + 1] == '\\' {
            // an escaped backslash: keep both, never start an escape at the second one
            out.push((0, '\\' as u32));
            out.push((0, '\\' as u32));
            i += 2;
            continue;
        }
        out.push((0, cs[i] as u32));
        i += 1;
    }
    out
}

/// Re-pair surrogate escapes and turn every escape back into the character it denotes.
/// Returns None if an unpaired surrogate remains.
pub fn decode_escapes(toks: &[(u8, u32)]) -> Option<String> {
    let mut s = String::new();
    let mut i = 0;
    while i < toks.len() {
        let (k, v) = toks[i];
        if k == 2 {
            // marker of a foreign escape: its raw text follows
            i += 1;
        } else if k == 0 {
            s.push(char::from_u32(v)?);
            i += 1;
        } else if (0xD800..0xDC00).contains(&v) {
            if i + 1 < toks.len() && toks[i + 1].0 == 1 && (0xDC00..0xE000).contains(&toks[i + 1].1)
            {
                let lo = toks[i + 1].1;
                let cp = 0x10000 + ((v - 0xD800) << 10) + (lo - 0xDC00);
                push_escaped_char(&mut s, char::from_u32(cp)?);
                i += 2;
            } else {
                return None;
            }
        } else {
            push_escaped_char(&mut s, char::from_u32(v)?);
            i += 1;
        }
    }
    Some(s)
}

fn push_escaped_char(s: &mut String, c: char) {
    // a decoded character must stay a literal for the parser: keep it as an escape the regex
    // crate understands when it would otherwise be syntax or be skipped under (?x)
    if c.is_ascii() || c.is_whitespace() {
        s.push_str(&format!("\\u{{{:x}}}", c as u32));
    } else {
        s.push(c);
    }
}

type Parsed = (
    Result<crate::parse::AstFacts, String>,
    Result<regex_syntax::hir::Hir, String>,
    Result<Regex, String>,
    Result<Regex, String>,
);

/// Parsing and compiling a pattern is by far the most expensive step of a sweep; identical
/// outputs (e.g. `^\w$` for a million code points) are parsed once per thread.
fn parse_cached(p: &str) -> std::rc::Rc<Parsed> {
    use std::cell::RefCell;
    use std::rc::Rc;
    thread_local! {
        static CACHE: RefCell<HashMap<String, Rc<Parsed>>> = RefCell::new(HashMap::new());
    }
    CACHE.with(|c| {
        let mut c = c.borrow_mut();
        if let Some(v) = c.get(p) {
            return v.clone();
        }
        let v = Rc::new((
            ast_facts(p),
            parse_hir(p),
            Regex::new(p).map_err(|e| e.to_string()),
            Regex::new(&format!("^(?:{})$", p)).map_err(|e| e.to_string()),
        ));
        if c.len() > 256 {
            c.clear();
        }
        if p.len() < 64 {
            c.insert(p.to_string(), v.clone());
        }
        v
    })
}

pub struct RunOpts {
    /// include the output as a code point sequence (C15)
    pub cps: bool,
}

pub struct GroupSpec {
    /// the distinct test cases the group is about (the "original" set)
    pub tcs: Vec<String>,
    pub runs: Vec<RunRaw>,
    pub cps: bool,
    pub tag: String,
}

pub struct GroupOut {
    /// NDJSON lines, the first is the group event (without id), the last the end event
    pub lines: Vec<String>,
    pub index: Value,
    pub notes: Vec<String>,
    pub natoms: usize,
}

fn replace_sets(v: &mut Value, atoms: &Atoms) {
    match v {
        Value::Object(m) => {
            if m.len() == 1 {
                if let Some(Value::Number(n)) = m.get("$set") {
                    let id = n.as_u64().unwrap() as usize;
                    *v = Value::Array(atoms.set_atoms[id].iter().map(|&a| json!(a)).collect());
                    return;
                }
            }
            for (_, x) in m.iter_mut() {
                replace_sets(x, atoms);
            }
        }
        Value::Array(a) => a.iter_mut().for_each(|x| replace_sets(x, atoms)),
        _ => {}
    }
}

pub fn emit_group(spec: &GroupSpec) -> GroupOut {
    let mut table = SetTable::new();
    let mut events: Vec<Value> = vec![];
    let mut notes: Vec<String> = vec![];
    let any_icase = spec.runs.iter().any(|r| r.cfg.icase);
    let any_class = spec.runs.iter().any(|r| r.cfg.any_class());

    // group event
    let mut gev = Map::new();
    gev.insert("ev".into(), json!("group"));
    gev.insert("tag".into(), json!(spec.tag));
    let cl = classes();
    let class_sets: [(&str, &CharSet); 12] = [
        ("D", &cl.d), ("W", &cl.w), ("S", &cl.s), ("ND", &cl.nd), ("NW", &cl.nw), ("NS", &cl.ns),
        ("Di", &cl.di), ("Wi", &cl.wi), ("Si", &cl.si), ("NDi", &cl.ndi), ("NWi", &cl.nwi),
        ("NSi", &cl.nsi),
    ];
    for (name, set) in class_sets.iter() {
        if any_class {
            gev.insert((*name).into(), set_ref(&mut table, (*set).clone()));
        } else {
            gev.insert((*name).into(), json!([]));
        }
    }
    events.push(Value::Object(gev));

    // original test cases
    for (i, t) in spec.tcs.iter().enumerate() {
        events.push(json!({"ev": "tc", "i": i + 1, "cells": word_cells(t, any_icase, &mut table)}));
    }

    // output string interning (C10)
    let mut out_ids: HashMap<String, usize> = HashMap::new();
    let mut index_runs = vec![];

    for (ri, run) in spec.runs.iter().enumerate() {
        let r = ri + 1;
        let cfg = &run.cfg;
        // does lower-casing change class membership of some character? (Appendix E)
        let mut class_unstable = false;
        if cfg.icase && cfg.any_class() {
            for t in &spec.tcs {
                let lower = t.to_lowercase();
                if lower.chars().count() == t.chars().count() {
                    for (a, b) in t.chars().zip(lower.chars()) {
                        let (a, b) = (a as u32, b as u32);
                        if cl.d.contains(a) != cl.d.contains(b)
                            || cl.w.contains(a) != cl.w.contains(b)
                            || cl.s.contains(a) != cl.s.contains(b)
                        {
                            class_unstable = true;
                        }
                    }
                }
            }
        }
        // positions of the run's list in the original set
        let order: Vec<usize> = run
            .input
            .iter()
            .map(|s| spec.tcs.iter().position(|t| t == s).map(|p| p + 1).unwrap_or(0))
            .collect();
        events.push(json!({"ev": "run", "r": r, "cfg": cfg.to_json(), "order": order,
                           "unstable": class_unstable,
                           "sched": run.class_sizes.len()}));

        let mut ctx = RunCtx { cfg, tokmap: HashMap::new(), notes: vec![], labels: HashMap::new() };
        let mut cl0: Option<&Vec<Vec<VGrapheme>>> = None;
        let mut n_widen = 0;
        for ev in &run.events {
            match ev {
                Event::Pre(list) => {
                    let l: Vec<Value> = list
                        .iter()
                        .map(|s| Value::Array(word_cells(s, any_icase, &mut table)))
                        .collect();
                    let bytes: Vec<usize> = list.iter().map(|s| s.len()).collect();
                    // is the list in the (byte length, lexicographic) order and duplicate free?
                    let sorted = list.windows(2).all(|w| {
                        (w[0].len(), w[0].as_str()) < (w[1].len(), w[1].as_str())
                    });
                    events.push(json!({"ev": "pre", "r": r, "list": l, "bytes": bytes, "sorted": sorted}));
                }
                Event::Clusters(phase, list) => {
                    if *phase == 0 {
                        cl0 = Some(list);
                        for c in list {
                            for g in c {
                                for s in &g.chars {
                                    ctx.tokmap
                                        .entry(s.clone())
                                        .or_insert_with(|| s.chars().map(Tok::Lit).collect());
                                }
                            }
                        }
                    }
                    if *phase == 1 {
                        // learn the token reading of every converted grapheme value
                        if let Some(l0) = cl0 {
                            let mut newmap: HashMap<String, Vec<Tok>> = HashMap::new();
                            let mut ok = l0.len() == list.len();
                            if ok {
                                for (c0, c1) in l0.iter().zip(list.iter()) {
                                    if c0.len() != c1.len() {
                                        ok = false;
                                        break;
                                    }
                                    for (g0, g1) in c0.iter().zip(c1.iter()) {
                                        if g0.chars.len() != 1 || g1.chars.len() != 1 {
                                            ok = false;
                                            break;
                                        }
                                        match tokenize(&g0.chars[0], &g1.chars[0]) {
                                            Ok(t) => {
                                                if let Some(prev) = newmap.get(&g1.chars[0]) {
                                                    if prev != &t {
                                                        ctx.notes.push(format!(
                                                            "conflicting readings of {:?}",
                                                            g1.chars[0]
                                                        ));
                                                    }
                                                } else {
                                                    newmap.insert(g1.chars[0].clone(), t);
                                                }
                                            }
                                            Err(e) => ctx.notes.push(e),
                                        }
                                    }
                                }
                            }
                            if !ok {
                                ctx.notes.push("cluster phases 0/1 differ in shape".into());
                            }
                            ctx.tokmap = newmap;
                        }
                    }
                    let l: Vec<Value> = list
                        .iter()
                        .map(|c| Value::Array(c.iter().map(|g| ctx.sym(g, &mut table)).collect()))
                        .collect();
                    events.push(json!({"ev": "cl", "r": r, "phase": phase, "list": l}));
                }
                Event::Trie(g) => {
                    let mut v = ctx.graph(g, &mut table);
                    v["ev"] = json!("trie");
                    v["r"] = json!(r);
                    v["widen"] = json!(n_widen);
                    events.push(v);
                }
                Event::Min(g) => {
                    let mut v = ctx.graph(g, &mut table);
                    v["ev"] = json!("min");
                    v["r"] = json!(r);
                    events.push(v);
                }
                Event::Widen { .. } => n_widen += 1,
                Event::Expr(e) => {
                    events.push(json!({"ev": "expr", "r": r, "ast": ctx.expr(e, &mut table)}));
                }
                Event::SelfCheck { stage, ok } => {
                    events.push(json!({"ev": "selfcheck", "r": r, "stage": stage, "ok": ok}));
                }
                Event::FallbackAlternation => {
                    events.push(json!({"ev": "fallback", "r": r}));
                }
                Event::Final(e) => {
                    events.push(json!({"ev": "final", "r": r, "ast": ctx.expr(e, &mut table)}));
                }
            }
        }
        notes.append(&mut ctx.notes);

        // the result
        let mut out = Map::new();
        out.insert("ev".into(), json!("out"));
        out.insert("r".into(), json!(r));
        match &run.outcome {
            Err(msg) => {
                out.insert("outcome".into(), json!("panic"));
                out.insert("msg".into(), json!(ascii_only(msg)));
                events.push(Value::Object(out));
                index_runs.push(json!({"r": r, "cfg": cfg.to_json(), "input": run.input, "schedule": run.schedule, "panic": msg}));
            }
            Ok(s) => {
                out.insert("outcome".into(), json!("ok"));
                let n = out_ids.len() + 1;
                let sid = *out_ids.entry(s.clone()).or_insert(n);
                out.insert("sid".into(), json!(sid));
                out.insert("ascii".into(), json!(s.is_ascii()));
                if spec.cps {
                    out.insert("cps".into(), json!(s.chars().map(|c| c as u32).collect::<Vec<_>>()));
                }
                let mut toks = vec![];
                if cfg.escape {
                    toks = esc_tokens(s);
                    out.insert(
                        "toks".into(),
                        Value::Array(toks.iter().map(|(k, v)| json!([k, v])).collect()),
                    );
                }
                // what the engine is given: the output itself, or its decoded form
                let for_engine: Option<String> = if cfg.color {
                    None
                } else if cfg.surr {
                    decode_escapes(&toks)
                } else {
                    Some(s.clone())
                };
                out.insert("engine".into(), json!(for_engine.is_some()));
                let mut obs = Map::new();
                if let Some(p) = &for_engine {
                    let parsed = parse_cached(p);
                    match (&parsed.0, &parsed.1, &parsed.2) {
                        (Ok(f), Ok(h), Ok(re)) => {
                            out.insert("compiles".into(), json!(true));
                            out.insert("flags".into(), json!(f.flags));
                            out.insert("oflags".into(), json!(f.other_flags));
                            out.insert("caret".into(), json!(f.caret_first));
                            out.insert("dollar".into(), json!(f.dollar_last));
                            out.insert("ncaret".into(), json!(f.n_caret));
                            out.insert("ndollar".into(), json!(f.n_dollar));
                            out.insert("nassert".into(), json!(f.n_other_assert));
                            out.insert("ncap".into(), json!(f.n_cap));
                            out.insert("nnoncap".into(), json!(f.n_noncap));
                            out.insert("nstar".into(), json!(f.n_star_plus));
                            out.insert(
                                "counted".into(),
                                Value::Array(
                                    f.counted
                                        .iter()
                                        .map(|(lo, hi, ml)| json!({"lo": lo, "hi": hi, "ml": ml}))
                                        .collect(),
                                ),
                            );
                            match hir_to_spec(&h, &mut table) {
                                Some(v) => {
                                    out.insert("hir".into(), v);
                                }
                                None => {
                                    out.insert("hir".into(), json!({"t": "unsupported"}));
                                }
                            }
                            // engine observations
                            let anchored = &parsed.3;
                            let mut full = vec![];
                            let mut find = vec![];
                            for t in &spec.tcs {
                                full.push(match &anchored {
                                    Ok(a) => a.is_match(t),
                                    Err(_) => false,
                                });
                                match re.find(t) {
                                    Some(m) => find.push(json!([
                                        char_offset(t, m.start()),
                                        char_offset(t, m.end())
                                    ])),
                                    None => find.push(json!([-1, -1])),
                                }
                            }
                            obs.insert("full".into(), json!(full));
                            obs.insert("find".into(), json!(find));
                        }
                        (a, h, re) => {
                            out.insert("compiles".into(), json!(false));
                            let msg = a
                                .as_ref()
                                .err()
                                .cloned()
                                .or(h.as_ref().err().cloned())
                                .or(re.as_ref().err().cloned())
                                .unwrap_or_default();
                            out.insert("msg".into(), json!(ascii_only(&msg)));
                        }
                    }
                } else if cfg.surr && !cfg.color {
                    out.insert("compiles".into(), json!(false));
                    out.insert("msg".into(), json!("unpaired surrogate escape"));
                    out.insert("engine".into(), json!(true));
                }
                events.push(Value::Object(out));
                if !obs.is_empty() {
                    obs.insert("ev".into(), json!("obs"));
                    obs.insert("r".into(), json!(r));
                    events.push(Value::Object(obs));
                }
                index_runs.push(json!({"r": r, "cfg": cfg.to_json(), "input": run.input, "schedule": run.schedule, "out": s}));
            }
        }
    }
    events.push(json!({"ev": "end"}));

    let atoms = Atoms::compute(&table);
    if let Err(e) = atoms.self_check(&table) {
        notes.push(format!("PROJECTION-SELF-CHECK-FAILED: {}", e));
    }
    let natoms = atoms.len();
    let mut lines = vec![];
    for mut e in events {
        replace_sets(&mut e, &atoms);
        if e["ev"] == "group" {
            e["n"] = json!(natoms);
        }
        lines.push(e.to_string());
    }
    GroupOut {
        lines,
        index: json!({"tag": spec.tag, "tcs": spec.tcs, "runs": index_runs}),
        notes,
        natoms,
    }
}

pub fn ascii_only(s: &str) -> String {
    s.chars()
        .map(|c| if c.is_ascii() && !c.is_control() { c } else { '?' })
        .take(200)
        .collect()
}

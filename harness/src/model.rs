//! Settings record, driving the real builder, capturing panics and hook events.

use grex::verif::Event;
use grex::RegExpBuilder;
use serde_json::{json, Value};
use std::panic::{catch_unwind, AssertUnwindSafe};

#[derive(Clone, Debug, PartialEq, Eq, Hash, PartialOrd, Ord)]
pub struct Cfg {
    pub digit: bool,
    pub nondigit: bool,
    pub space: bool,
    pub nonspace: bool,
    pub word: bool,
    pub nonword: bool,
    pub rep: bool,
    pub icase: bool,
    pub capture: bool,
    pub escape: bool,
    pub surr: bool,
    pub verbose: bool,
    pub nostart: bool,
    pub noend: bool,
    pub color: bool,
    pub min_rep: u32,
    pub min_sub: u32,
}

pub const FLAG_NAMES: [&str; 15] = [
    "digit", "nondigit", "space", "nonspace", "word", "nonword", "rep", "icase", "capture",
    "escape", "surr", "verbose", "nostart", "noend", "color",
];

impl Default for Cfg {
    fn default() -> Self {
        Cfg {
            digit: false,
            nondigit: false,
            space: false,
            nonspace: false,
            word: false,
            nonword: false,
            rep: false,
            icase: false,
            capture: false,
            escape: false,
            surr: false,
            verbose: false,
            nostart: false,
            noend: false,
            color: false,
            min_rep: 1,
            min_sub: 1,
        }
    }
}

impl Cfg {
    pub fn flag(&self, i: usize) -> bool {
        match i {
            0 => self.digit,
            1 => self.nondigit,
            2 => self.space,
            3 => self.nonspace,
            4 => self.word,
            5 => self.nonword,
            6 => self.rep,
            7 => self.icase,
            8 => self.capture,
            9 => self.escape,
            10 => self.surr,
            11 => self.verbose,
            12 => self.nostart,
            13 => self.noend,
            14 => self.color,
            _ => panic!(),
        }
    }
    pub fn set_flag(&mut self, i: usize, v: bool) {
        match i {
            0 => self.digit = v,
            1 => self.nondigit = v,
            2 => self.space = v,
            3 => self.nonspace = v,
            4 => self.word = v,
            5 => self.nonword = v,
            6 => self.rep = v,
            7 => self.icase = v,
            8 => self.capture = v,
            9 => self.escape = v,
            10 => self.surr = v,
            11 => self.verbose = v,
            12 => self.nostart = v,
            13 => self.noend = v,
            14 => self.color = v,
            _ => panic!(),
        }
    }
    /// bit i of `bits` = flag i (FLAG_NAMES order). The surrogate flag only has an effect
    /// together with escaping (there is no way to set it alone through the API).
    pub fn from_bits(bits: u32) -> Cfg {
        let mut c = Cfg::default();
        for i in 0..15 {
            c.set_flag(i, bits & (1 << i) != 0);
        }
        if !c.escape {
            c.surr = false;
        }
        c
    }
    pub fn with(&self, name: &str, v: bool) -> Cfg {
        let mut c = self.clone();
        let i = FLAG_NAMES.iter().position(|n| *n == name).expect("flag name");
        c.set_flag(i, v);
        c
    }
    pub fn thresholds(&self, min_rep: u32, min_sub: u32) -> Cfg {
        let mut c = self.clone();
        c.min_rep = min_rep;
        c.min_sub = min_sub;
        c
    }
    pub fn any_class(&self) -> bool {
        self.digit || self.nondigit || self.space || self.nonspace || self.word || self.nonword
    }
    pub fn to_json(&self) -> Value {
        json!({
            "digit": self.digit, "nondigit": self.nondigit, "space": self.space,
            "nonspace": self.nonspace, "word": self.word, "nonword": self.nonword,
            "rep": self.rep, "icase": self.icase, "capture": self.capture,
            "escape": self.escape, "surr": self.surr, "verbose": self.verbose,
            "nostart": self.nostart, "noend": self.noend, "color": self.color,
            "minrep": self.min_rep.min(1_000_000) , "minsub": self.min_sub.min(1_000_000),
        })
    }
    pub fn from_json(v: &Value) -> Cfg {
        let b = |k: &str| v.get(k).and_then(|x| x.as_bool()).unwrap_or(false);
        let n = |k: &str| v.get(k).and_then(|x| x.as_u64()).unwrap_or(1) as u32;
        Cfg {
            digit: b("digit"),
            nondigit: b("nondigit"),
            space: b("space"),
            nonspace: b("nonspace"),
            word: b("word"),
            nonword: b("nonword"),
            rep: b("rep"),
            icase: b("icase"),
            capture: b("capture"),
            escape: b("escape"),
            surr: b("surr"),
            verbose: b("verbose"),
            nostart: b("nostart"),
            noend: b("noend"),
            color: b("color"),
            min_rep: n("minrep"),
            min_sub: n("minsub"),
        }
    }
    /// Applies the settings through the public setters in an order derived from `salt` (setters
    /// commute by specification, Builder!Effect); salt 0 is the canonical order of `apply`.
    pub fn apply_permuted(&self, b: &mut RegExpBuilder, salt: u64) {
        if salt == 0 {
            return self.apply(b);
        }
        let mut calls: Vec<Box<dyn Fn(&mut RegExpBuilder)>> = vec![];
        if self.digit { calls.push(Box::new(|b| { b.with_conversion_of_digits(); })); }
        if self.nondigit { calls.push(Box::new(|b| { b.with_conversion_of_non_digits(); })); }
        if self.space { calls.push(Box::new(|b| { b.with_conversion_of_whitespace(); })); }
        if self.nonspace { calls.push(Box::new(|b| { b.with_conversion_of_non_whitespace(); })); }
        if self.word { calls.push(Box::new(|b| { b.with_conversion_of_words(); })); }
        if self.nonword { calls.push(Box::new(|b| { b.with_conversion_of_non_words(); })); }
        if self.rep { calls.push(Box::new(|b| { b.with_conversion_of_repetitions(); })); }
        if self.icase { calls.push(Box::new(|b| { b.with_case_insensitive_matching(); })); }
        if self.capture { calls.push(Box::new(|b| { b.with_capturing_groups(); })); }
        if self.escape { let s = self.surr; calls.push(Box::new(move |b| { b.with_escaping_of_non_ascii_chars(s); })); }
        if self.verbose { calls.push(Box::new(|b| { b.with_verbose_mode(); })); }
        if self.nostart && self.noend && salt % 3 == 0 {
            calls.push(Box::new(|b| { b.without_anchors(); }));
        } else {
            if self.nostart { calls.push(Box::new(|b| { b.without_start_anchor(); })); }
            if self.noend { calls.push(Box::new(|b| { b.without_end_anchor(); })); }
        }
        if self.color { calls.push(Box::new(|b| { b.with_syntax_highlighting(); })); }
        if self.min_rep != 1 { let n = self.min_rep; calls.push(Box::new(move |b| { b.with_minimum_repetitions(n); })); }
        if self.min_sub != 1 { let n = self.min_sub; calls.push(Box::new(move |b| { b.with_minimum_substring_length(n); })); }
        // Fisher-Yates with a tiny LCG seeded by salt
        let mut x = salt.wrapping_mul(6364136223846793005).wrapping_add(1442695040888963407);
        for i in (1..calls.len()).rev() {
            x = x.wrapping_mul(6364136223846793005).wrapping_add(1442695040888963407);
            let j = (x >> 33) as usize % (i + 1);
            calls.swap(i, j);
        }
        for c in calls {
            c(b);
        }
    }

    /// Applies the settings through the public setters, in a fixed canonical order.
    pub fn apply(&self, b: &mut RegExpBuilder) {
        if self.digit {
            b.with_conversion_of_digits();
        }
        if self.nondigit {
            b.with_conversion_of_non_digits();
        }
        if self.space {
            b.with_conversion_of_whitespace();
        }
        if self.nonspace {
            b.with_conversion_of_non_whitespace();
        }
        if self.word {
            b.with_conversion_of_words();
        }
        if self.nonword {
            b.with_conversion_of_non_words();
        }
        if self.rep {
            b.with_conversion_of_repetitions();
        }
        if self.icase {
            b.with_case_insensitive_matching();
        }
        if self.capture {
            b.with_capturing_groups();
        }
        if self.escape {
            b.with_escaping_of_non_ascii_chars(self.surr);
        }
        if self.verbose {
            b.with_verbose_mode();
        }
        if self.nostart {
            b.without_start_anchor();
        }
        if self.noend {
            b.without_end_anchor();
        }
        if self.color {
            b.with_syntax_highlighting();
        }
        if self.min_rep != 1 {
            b.with_minimum_repetitions(self.min_rep);
        }
        if self.min_sub != 1 {
            b.with_minimum_substring_length(self.min_sub);
        }
    }
}

pub fn panic_message(e: Box<dyn std::any::Any + Send>) -> String {
    if let Some(s) = e.downcast_ref::<&str>() {
        s.to_string()
    } else if let Some(s) = e.downcast_ref::<String>() {
        s.clone()
    } else {
        "<non-string panic payload>".to_string()
    }
}

pub fn silence_panics() {
    std::panic::set_hook(Box::new(|_| {}));
}

#[derive(Clone, Debug)]
pub struct RunRaw {
    pub cfg: Cfg,
    pub input: Vec<String>,
    pub outcome: Result<String, String>,
    pub events: Vec<Event>,
    pub class_sizes: Vec<usize>,
    pub schedule: Option<Vec<usize>>,
}

/// One build of the real code on `input` (list as given) under `cfg`, hooks recording.
pub fn run_build(input: &[String], cfg: &Cfg, schedule: Option<Vec<usize>>) -> RunRaw {
    // the order of the setter calls is varied from run to run (derived from the input and settings)
    let salt = {
        use std::hash::{Hash, Hasher};
        let mut h = std::collections::hash_map::DefaultHasher::new();
        input.hash(&mut h);
        cfg.hash(&mut h);
        h.finish() | 1
    };
    grex::verif::start(schedule.clone());
    let outcome = catch_unwind(AssertUnwindSafe(|| {
        let mut b = RegExpBuilder::from(input);
        cfg.apply_permuted(&mut b, salt);
        b.build()
    }));
    let (events, class_sizes) = grex::verif::take();
    RunRaw {
        cfg: cfg.clone(),
        input: input.to_vec(),
        outcome: outcome.map_err(panic_message),
        events,
        class_sizes,
        schedule,
    }
}

/// Build without recording (sweeps).
pub fn plain_build(input: &[String], cfg: &Cfg) -> Result<String, String> {
    catch_unwind(AssertUnwindSafe(|| {
        let mut b = RegExpBuilder::from(input);
        cfg.apply(&mut b);
        b.build()
    }))
    .map_err(panic_message)
}

//! Builder histories and front ends (C07 C10 C12 C14 C17): standalone trace events
//! `hist`, `multi`, `cli` judged by the Builder/Front part of the specification.

use crate::gen::{shaped_set, CASED, CLUSTERS, DIGITS, PLAIN};
use crate::model::{panic_message, Cfg};
use grex::RegExpBuilder;
use rand::rngs::StdRng;
use rand::seq::SliceRandom;
use rand::{Rng, SeedableRng};
use serde_json::{json, Value};
use std::collections::HashMap;
use std::panic::{catch_unwind, AssertUnwindSafe};

pub const SETTERS: [&str; 17] = [
    "digit", "nondigit", "space", "nonspace", "word", "nonword", "rep", "icase", "capture", "verbose",
    "nostart", "noend", "noanchors", "color", "escape", "minrep", "minsub",
];

/// The harness' own belief of what a setter does (checked against Builder!Effect by TLC).
pub fn believe(c: &mut Cfg, name: &str, arg: i64) -> bool {
    match name {
        "digit" => c.digit = true,
        "nondigit" => c.nondigit = true,
        "space" => c.space = true,
        "nonspace" => c.nonspace = true,
        "word" => c.word = true,
        "nonword" => c.nonword = true,
        "rep" => c.rep = true,
        "icase" => c.icase = true,
        "capture" => c.capture = true,
        "verbose" => c.verbose = true,
        "nostart" => c.nostart = true,
        "noend" => c.noend = true,
        "noanchors" => {
            c.nostart = true;
            c.noend = true;
        }
        "color" => c.color = true,
        "escape" => {
            c.escape = true;
            c.surr = arg == 1;
        }
        "minrep" => {
            if arg < 1 {
                return false;
            }
            c.min_rep = arg as u32
        }
        "minsub" => {
            if arg < 1 {
                return false;
            }
            c.min_sub = arg as u32
        }
        _ => panic!("setter {}", name),
    }
    true
}

pub fn call_setter(b: &mut RegExpBuilder, name: &str, arg: i64) {
    match name {
        "digit" => b.with_conversion_of_digits(),
        "nondigit" => b.with_conversion_of_non_digits(),
        "space" => b.with_conversion_of_whitespace(),
        "nonspace" => b.with_conversion_of_non_whitespace(),
        "word" => b.with_conversion_of_words(),
        "nonword" => b.with_conversion_of_non_words(),
        "rep" => b.with_conversion_of_repetitions(),
        "icase" => b.with_case_insensitive_matching(),
        "capture" => b.with_capturing_groups(),
        "verbose" => b.with_verbose_mode(),
        "nostart" => b.without_start_anchor(),
        "noend" => b.without_end_anchor(),
        "noanchors" => b.without_anchors(),
        "color" => b.with_syntax_highlighting(),
        "escape" => b.with_escaping_of_non_ascii_chars(arg == 1),
        "minrep" => b.with_minimum_repetitions(arg.max(0) as u32),
        "minsub" => b.with_minimum_substring_length(arg.max(0) as u32),
        _ => panic!("setter {}", name),
    };
}

pub struct Interner {
    map: HashMap<String, usize>,
}
impl Interner {
    pub fn new() -> Self {
        Interner { map: HashMap::new() }
    }
    pub fn id(&mut self, s: &str) -> usize {
        let n = self.map.len() + 1;
        *self.map.entry(s.to_string()).or_insert(n)
    }
}

pub fn cps(s: &str) -> Vec<u32> {
    s.chars().map(|c| c as u32).collect()
}

/// the library on (list, settings) through a fresh builder with the canonical setter order
/// It runs on a FRESH thread so that no per-thread state left behind by earlier builds of the
/// code under test can leak into the reference result.
/// C01 observed on a build inside a history: does the returned pattern compile, and how many test cases does it
/// fail to match as a whole? A failure counts only if two engines agree (the regex crate's meta engine and
/// regex-automata's PikeVM, which has no prefilters and no lazy DFA).
pub fn soundness(out: &str, tcs: &[String]) -> (bool, usize, bool) {
    let anchored = format!("^(?:{})$", out);
    let re = match regex::Regex::new(&anchored) {
        Ok(r) => r,
        Err(_) => return (false, 0, false),
    };
    let vm = regex_automata::nfa::thompson::pikevm::PikeVM::new(&anchored).ok();
    let mut cache = vm.as_ref().map(|v| v.create_cache());
    let mut failed = 0;
    let mut eps_only = true;
    for t in tcs {
        if re.is_match(t) {
            continue;
        }
        if let (Some(v), Some(c)) = (&vm, cache.as_mut()) {
            if v.is_match(c, t.as_str()) {
                continue; // the engines disagree: not evidence against grex
            }
        }
        failed += 1;
        if !t.is_empty() {
            eps_only = false;
        }
    }
    (true, failed, failed > 0 && eps_only)
}

pub fn lib_out(list: &[String], cfg: &Cfg) -> Result<String, String> {
    let (l, c) = (list.to_vec(), cfg.clone());
    std::thread::spawn(move || crate::model::plain_build(&l, &c))
        .join()
        .unwrap_or_else(|_| Err("reference thread panicked".to_string()))
}

/// the library in a fresh PROCESS (fresh hash seeds, no process-wide state)
pub fn lib_out_process(list: &[String], cfg: &Cfg, self_exe: &str, tmp: &str, tag: usize) -> Result<String, String> {
    let path = format!("{}/ref_plan_{}.json", tmp, tag);
    std::fs::write(&path, json!({"list": list, "cfg": cfg.to_json()}).to_string()).map_err(|e| e.to_string())?;
    let out = std::process::Command::new(self_exe).args(["build-one", &path]).output().map_err(|e| e.to_string())?;
    let _ = std::fs::remove_file(&path);
    let s = String::from_utf8_lossy(&out.stdout).to_string();
    if let Some(m) = s.strip_prefix("PANIC ") {
        Err(m.to_string())
    } else {
        Ok(s)
    }
}

#[derive(Clone, Debug)]
pub enum Op {
    New { o: usize, set: usize, list: Vec<String>, from_file: bool },
    Set { o: usize, name: String, arg: i64 },
    Clone { o: usize, ret: usize },
    Build { o: usize },
}

/// A random history over a pool of test-case sets. Lists are random permutations / duplications
/// of the pool's sets; the set id identifies the SET.
pub fn random_history(rng: &mut StdRng, max_ops: usize, allow_errors: bool) -> (Vec<Vec<String>>, Vec<Op>) {
    let pools: [&'static [&'static str]; 4] = [PLAIN, DIGITS, CASED, CLUSTERS];
    let mut letters: Vec<&str> = PLAIN.to_vec();
    for _ in 0..2 {
        let p = pools[rng.gen_range(0..pools.len())];
        letters.push(p[rng.gen_range(0..p.len())]);
    }
    let nsets = rng.gen_range(1..=2);
    let mut sets: Vec<Vec<String>> = (0..nsets).map(|_| shaped_set(rng, &letters, 4, 3)).collect();
    if rng.gen_bool(0.03) {
        // a list that consists of the empty test case only is still a list of test cases (result ^$)
        sets[0] = vec![String::new()];
    }
    let mut ops = vec![];
    let mut live: Vec<usize> = vec![];
    let mut next_obj = 1;
    let n = rng.gen_range(3..=max_ops);
    for k in 0..n {
        let choice = if live.is_empty() { 0 } else { rng.gen_range(0..10) };
        match choice {
            0 => {
                let set = rng.gen_range(0..sets.len());
                let mut list = sets[set].clone();
                list.shuffle(rng);
                for _ in 0..rng.gen_range(0..=2) {
                    let d = list[rng.gen_range(0..list.len())].clone();
                    let pos = rng.gen_range(0..=list.len());
                    list.insert(pos, d);
                }
                if allow_errors && rng.gen_bool(0.05) {
                    list.clear();
                }
                let empty = list.is_empty();
                let from_file = !list.is_empty() && rng.gen_bool(0.25) && list.iter().all(|t| !t.contains('\n') && !t.contains('\r'));
                ops.push(Op::New { o: next_obj, set: set + 1, list, from_file });
                if !empty {
                    live.push(next_obj);
                }
                next_obj += 1;
            }
            1 => {
                let o = live[rng.gen_range(0..live.len())];
                ops.push(Op::Clone { o, ret: next_obj });
                live.push(next_obj);
                next_obj += 1;
            }
            2 | 3 | 4 => {
                let o = live[rng.gen_range(0..live.len())];
                ops.push(Op::Build { o });
            }
            _ => {
                let o = live[rng.gen_range(0..live.len())];
                let name = SETTERS[rng.gen_range(0..SETTERS.len())];
                let arg: i64 = match name {
                    "escape" => rng.gen_range(0..=1),
                    "minrep" | "minsub" => {
                        if allow_errors && rng.gen_bool(0.1) {
                            0
                        } else if rng.gen_bool(0.05) {
                            // numeric boundaries of the u32 thresholds (the specification sees them capped, see Cfg::to_json)
                            [4294967295i64, 4294967294, 2147483648, 65536, 256, 255][rng.gen_range(0..6)]
                        } else {
                            rng.gen_range(1..=3)
                        }
                    }
                    _ => 0,
                };
                ops.push(Op::Set { o, name: name.to_string(), arg });
            }
        }
        if k == n - 1 {
            if let Some(&o) = live.last() {
                ops.push(Op::Build { o });
            }
        }
    }
    (sets, ops)
}

/// Structured histories: the call patterns in which hidden state or call-order dependence would show -
/// repeated builds after a setting that makes build() normalise the list in place, thresholds set before /
/// after / between builds, clones taken before and after builds.
pub fn structured_history(rng: &mut StdRng) -> (Vec<Vec<String>>, Vec<Op>) {
    let mixed = ["Bxx", "ayy", "Abc", "aBc", "abC", "ZZ", "zy", "Ka", "kA", "b", "B", "\u{130}x", "i\u{307}x", "\u{212A}", "k"];
    let repeats = ["aaa", "aaaa", "abab", "ababab", "aaaab", "xyxyxy", "1111", "11a11a", "aabb", "abcabc", "zzzzz"];
    let astral = ["\u{1F4A9}", "a\u{1F4A9}b", "\u{e9}t\u{e9}", "x\u{1F600}y\u{1F600}", "ab", "\u{10FFFF}z", "\u{1D7D7}1", "aaa\u{1F4A9}\u{1F4A9}\u{1F4A9}"];
    let family = rng.gen_range(0..6);
    let pool: &[&str] = if family == 5 { &astral } else if family == 0 || family == 4 || (family == 3 && rng.gen_bool(0.5)) { &mixed } else { &repeats };
    let mut list: Vec<String> = vec![];
    for _ in 0..rng.gen_range(2..=4) {
        list.push(pool[rng.gen_range(0..pool.len())].to_string());
    }
    list.sort();
    list.dedup();
    let set = list.clone();
    list.shuffle(rng);
    let from_file = rng.gen_bool(0.3);
    let mut ops = vec![Op::New { o: 1, set: 1, list, from_file }];
    let set_op = |name: &str, arg: i64| Op::Set { o: 1, name: name.to_string(), arg };
    match family {
        0 => {
            // in-place normalisation: settings, then build twice, clone, build both
            ops.push(set_op("icase", 0));
            if rng.gen_bool(0.4) {
                ops.push(set_op(["rep", "verbose", "noanchors", "capture"][rng.gen_range(0..4)], 0));
            }
            ops.push(Op::Build { o: 1 });
            ops.push(Op::Build { o: 1 });
            ops.push(Op::Clone { o: 1, ret: 2 });
            ops.push(Op::Build { o: 2 });
            ops.push(Op::Build { o: 1 });
        }
        1 => {
            // thresholds before / after enabling the conversion
            let (r, m) = (rng.gen_range(1..=4), rng.gen_range(1..=3));
            let mut calls = vec![set_op("minrep", r), set_op("minsub", m), set_op("rep", 0)];
            calls.shuffle(rng);
            ops.extend(calls);
            ops.push(Op::Build { o: 1 });
        }
        2 => {
            // settings change between builds of the same object
            ops.push(set_op("rep", 0));
            ops.push(Op::Build { o: 1 });
            ops.push(set_op("minrep", rng.gen_range(2..=3)));
            ops.push(Op::Build { o: 1 });
            ops.push(set_op("minsub", rng.gen_range(2..=3)));
            ops.push(Op::Build { o: 1 });
            ops.push(set_op(["digit", "word", "icase", "escape"][rng.gen_range(0..4)], 0));
            ops.push(Op::Build { o: 1 });
        }
        5 => {
            // the settings that carry a value (escape's surrogate flag, the two thresholds) can be set again: the LAST
            // call decides, whatever was built in between; repeated boolean setters are idempotent
            let a: Vec<i64> = (0..3).map(|_| rng.gen_range(0..=1)).collect();
            ops.push(set_op("escape", a[0]));
            if rng.gen_bool(0.5) {
                ops.push(Op::Build { o: 1 });
            }
            if rng.gen_bool(0.5) {
                ops.push(set_op(["rep", "digit", "word", "icase", "verbose", "nostart"][rng.gen_range(0..6)], 0));
            }
            ops.push(set_op("escape", a[1]));
            ops.push(Op::Build { o: 1 });
            if rng.gen_bool(0.5) {
                ops.push(set_op("rep", 0));
                ops.push(set_op("rep", 0));
                ops.push(set_op("minrep", rng.gen_range(1..=3)));
                ops.push(Op::Build { o: 1 });
                ops.push(set_op("minrep", rng.gen_range(1..=3)));
            }
            ops.push(set_op("escape", a[2]));
            ops.push(Op::Build { o: 1 });
            ops.push(Op::Clone { o: 1, ret: 2 });
            ops.push(Op::Set { o: 2, name: "escape".to_string(), arg: 1 - a[2] });
            ops.push(Op::Build { o: 2 });
            ops.push(Op::Build { o: 1 });
        }
        4 => {
            // a setting that changes the normalisation arrives AFTER a first build
            ops.push(Op::Build { o: 1 });
            ops.push(set_op("icase", 0));
            ops.push(Op::Build { o: 1 });
            ops.push(Op::Clone { o: 1, ret: 2 });
            ops.push(Op::Build { o: 2 });
        }
        _ => {
            // clones are independent in both directions
            ops.push(set_op(["rep", "icase", "digit", "noend"][rng.gen_range(0..4)], 0));
            if rng.gen_bool(0.5) {
                ops.push(Op::Build { o: 1 });
            }
            ops.push(Op::Clone { o: 1, ret: 2 });
            ops.push(Op::Set { o: 2, name: ["verbose", "capture", "nostart", "minrep"][rng.gen_range(0..4)].to_string(), arg: 2 });
            ops.push(Op::Set { o: 1, name: ["escape", "word", "noanchors"][rng.gen_range(0..3)].to_string(), arg: 1 });
            ops.push(Op::Build { o: 2 });
            ops.push(Op::Build { o: 1 });
            ops.push(Op::Build { o: 2 });
        }
    }
    (vec![set], ops)
}

/// Executes a history on real `RegExpBuilder` objects and returns the `hist` event.
pub fn run_rust_history(h: usize, sets: &[Vec<String>], ops: &[Op]) -> (Value, Value) {
    run_rust_history_ref(h, sets, ops, None)
}

/// `proc_ref`: (path of this executable, scratch dir) - the reference results then come from fresh processes
pub fn run_rust_history_ref(h: usize, sets: &[Vec<String>], ops: &[Op], proc_ref: Option<(&str, &str)>) -> (Value, Value) {
    let mut objs: HashMap<usize, RegExpBuilder> = HashMap::new();
    let mut belief: HashMap<usize, (usize, Cfg)> = HashMap::new();
    let mut intern = Interner::new();
    let mut evops = vec![];
    let mut idx = vec![];
    for op in ops {
        match op {
            Op::New { o, set, list, from_file } => {
                let r = catch_unwind(AssertUnwindSafe(|| {
                    if *from_file {
                        // the library's second constructor: one test case per line of a file
                        let dir = std::env::var("GV_TMP").map(std::path::PathBuf::from).unwrap_or_else(|_| std::env::temp_dir());
                        let path = dir.join(format!("gv_from_file_{}_{}_{}.txt", std::process::id(), h, o));
                        let mut content = list.join("\n");
                        content.push('\n');
                        std::fs::write(&path, content).expect("write scratch file");
                        let b = RegExpBuilder::from_file(&path);
                        let _ = std::fs::remove_file(&path);
                        b
                    } else {
                        RegExpBuilder::from(list)
                    }
                }));
                match r {
                    Ok(b) => {
                        objs.insert(*o, b);
                        belief.insert(*o, (*set, Cfg::default()));
                        evops.push(json!({"op": "new", "o": o, "set": set, "n": list.len(), "ok": true, "msg": ""}));
                    }
                    Err(e) => {
                        evops.push(json!({"op": "new", "o": o, "set": set, "n": list.len(), "ok": false,
                                          "msg": panic_message(e)}));
                    }
                }
                idx.push(json!({"op": "new", "o": o, "list": list, "from_file": from_file}));
            }
            Op::Set { o, name, arg } => {
                let b = objs.get_mut(o).unwrap();
                let r = catch_unwind(AssertUnwindSafe(|| call_setter(b, name, *arg)));
                let (ok, msg) = match r {
                    Ok(()) => (true, String::new()),
                    Err(e) => (false, panic_message(e)),
                };
                if ok {
                    let bel = belief.get_mut(o).unwrap();
                    believe(&mut bel.1, name, *arg);
                }
                // a Rust setter returns `&mut Self`: the receiver itself
                evops.push(json!({"op": "set", "o": o, "name": name, "arg": (*arg).min(1_000_000), "ret": o, "ok": ok, "msg": msg}));
                idx.push(json!({"op": "set", "o": o, "name": name, "arg": arg}));
            }
            Op::Clone { o, ret } => {
                let c = objs.get(o).unwrap().clone();
                objs.insert(*ret, c);
                let bel = belief.get(o).unwrap().clone();
                belief.insert(*ret, bel);
                evops.push(json!({"op": "clone", "o": o, "ret": ret, "ok": true, "msg": ""}));
                idx.push(json!({"op": "clone", "o": o, "ret": ret}));
            }
            Op::Build { o } => {
                let b = objs.get_mut(o).unwrap();
                let r = catch_unwind(AssertUnwindSafe(|| b.build()));
                let (set, cfg) = belief.get(o).unwrap().clone();
                match r {
                    Ok(out) => {
                        let lib = match proc_ref {
                            Some((exe, tmp)) => lib_out_process(&sets[set - 1], &cfg, exe, tmp, h),
                            None => lib_out(&sets[set - 1], &cfg),
                        };
                        let libsid = match &lib {
                            Ok(s) => intern.id(s),
                            Err(_) => 0,
                        };
                        let (compiles, failed, failed_eps) = soundness(&out, &sets[set - 1]);
                        evops.push(json!({"op": "build", "o": o, "ok": true, "msg": "", "cfg": cfg.to_json(),
                                          "sid": intern.id(&out), "libsid": libsid,
                                          "compiles": compiles, "failed": failed, "failed_eps": failed_eps}));
                        idx.push(json!({"op": "build", "o": o, "out": out, "lib": lib.unwrap_or_else(|e| format!("PANIC {}", e))}));
                    }
                    Err(e) => {
                        evops.push(json!({"op": "build", "o": o, "ok": false, "msg": crate::emit::ascii_only(&panic_message(e)),
                                          "cfg": cfg.to_json(), "sid": 0, "libsid": 0}));
                        idx.push(json!({"op": "build", "o": o, "out": "PANIC"}));
                    }
                }
            }
        }
    }
    (
        json!({"ev": "hist", "front": "rust", "h": h, "ops": evops}),
        json!({"h": h, "kind": "hist-rust", "sets": sets, "ops": idx}),
    )
}

/// 16 threads x k builds of the same (list, settings): all outputs must be one string.
pub fn run_threads(h: usize, list: &[String], cfg: &Cfg, threads: usize, per_thread: usize) -> (Value, Value) {
    let mut handles = vec![];
    for t in 0..threads {
        let list = list.to_vec();
        let cfg = cfg.clone();
        handles.push(std::thread::spawn(move || {
            let mut outs = vec![];
            let mut rng = StdRng::seed_from_u64(t as u64);
            for _ in 0..per_thread {
                let mut l = list.clone();
                l.shuffle(&mut rng);
                outs.push(lib_out(&l, &cfg).unwrap_or_else(|e| format!("PANIC {}", e)));
            }
            outs
        }));
    }
    let mut intern = Interner::new();
    let mut sids = vec![];
    let mut distinct = vec![];
    for hnd in handles {
        for o in hnd.join().unwrap() {
            let before = intern.map.len();
            let id = intern.id(&o);
            if intern.map.len() > before {
                distinct.push(o);
            }
            sids.push(id);
        }
    }
    (
        json!({"ev": "multi", "what": "threads", "h": h, "sids": sids}),
        json!({"h": h, "kind": "threads", "list": list, "cfg": cfg.to_json(), "distinct_outputs": distinct}),
    )
}

/// N fresh processes (fresh hash seeds) building the same (list, settings).
pub fn run_procs(h: usize, list: &[String], cfg: &Cfg, n: usize, self_exe: &str, tmp: &str) -> (Value, Value) {
    let plan = json!({"list": list, "cfg": cfg.to_json()});
    let path = format!("{}/proc_plan_{}.json", tmp, h);
    std::fs::write(&path, plan.to_string()).unwrap();
    let mut intern = Interner::new();
    let mut sids = vec![];
    let mut distinct = vec![];
    for _ in 0..n {
        let out = std::process::Command::new(self_exe)
            .args(["build-one", &path])
            .output()
            .expect("spawn self");
        let s = String::from_utf8_lossy(&out.stdout).to_string();
        let before = intern.map.len();
        let id = intern.id(&s);
        if intern.map.len() > before {
            distinct.push(s);
        }
        sids.push(id);
    }
    let _ = std::fs::remove_file(&path);
    (
        json!({"ev": "multi", "what": "procs", "h": h, "sids": sids}),
        json!({"h": h, "kind": "procs", "list": list, "cfg": cfg.to_json(), "distinct_outputs": distinct}),
    )
}

// ------------------------------------------------------------------------------------------
// CLI (C12)
// ------------------------------------------------------------------------------------------
pub const CLI_FLAGS: [&str; 16] = [
    "digits", "non-digits", "spaces", "non-spaces", "words", "non-words", "escape", "with-surrogates",
    "repetitions", "no-start-anchor", "no-end-anchor", "no-anchors", "verbose", "colorize", "ignore-case",
    "capture-groups",
];

/// the harness' belief of the flag mapping (checked against Front!CliMap by TLC)
pub fn cli_believe(flags: &[&str], minrep: i64, minsub: i64) -> Cfg {
    let has = |f: &str| flags.contains(&f);
    let mut c = Cfg::default();
    c.digit = has("digits");
    c.nondigit = has("non-digits");
    c.space = has("spaces");
    c.nonspace = has("non-spaces");
    c.word = has("words");
    c.nonword = has("non-words");
    c.rep = has("repetitions");
    c.icase = has("ignore-case");
    c.capture = has("capture-groups");
    c.escape = has("escape");
    c.surr = has("escape") && has("with-surrogates");
    c.verbose = has("verbose");
    c.nostart = has("no-start-anchor") || has("no-anchors");
    c.noend = has("no-end-anchor") || has("no-anchors");
    c.color = has("colorize");
    c.min_rep = minrep.max(0) as u32;
    c.min_sub = minsub.max(0) as u32;
    c
}

pub struct CliScenario {
    pub flags: Vec<&'static str>,
    pub minrep: i64,
    pub minsub: i64,
    pub channel: &'static str, // args | stdin | file | filestdin
    pub args: Vec<String>,
    pub content: Vec<u8>,
    pub readable: bool,
}

pub fn run_cli(h: usize, sc: &CliScenario, bin: &str, tmp: &str) -> (Value, Value) {
    use std::io::Write;
    use std::process::{Command, Stdio};
    let mut cmd = Command::new(bin);
    for f in &sc.flags {
        cmd.arg(format!("--{}", f));
    }
    if sc.minrep != 1 {
        cmd.args(["--min-repetitions", &sc.minrep.to_string()]);
    }
    if sc.minsub != 1 {
        cmd.args(["--min-substring-length", &sc.minsub.to_string()]);
    }
    let file_path = format!("{}/cli_input_{}.txt", tmp, h);
    let mut stdin_bytes: Option<Vec<u8>> = None;
    match sc.channel {
        "args" => {
            for a in &sc.args {
                cmd.arg(a);
            }
        }
        "stdin" => {
            cmd.arg("-");
            stdin_bytes = Some(sc.content.clone());
        }
        "file" => {
            if sc.readable {
                std::fs::write(&file_path, &sc.content).unwrap();
            } else {
                let _ = std::fs::remove_file(&file_path);
            }
            cmd.args(["-f", &file_path]);
        }
        "filestdin" => {
            if sc.readable {
                std::fs::write(&file_path, &sc.content).unwrap();
            } else {
                let _ = std::fs::remove_file(&file_path);
            }
            cmd.args(["-f", "-"]);
            stdin_bytes = Some(format!("{}\n", file_path).into_bytes());
        }
        _ => panic!(),
    }
    cmd.stdout(Stdio::piped()).stderr(Stdio::piped());
    cmd.stdin(if stdin_bytes.is_some() { Stdio::piped() } else { Stdio::null() });
    let mut child = cmd.spawn().expect("spawn grex");
    if let Some(bytes) = stdin_bytes {
        let mut si = child.stdin.take().unwrap();
        let _ = si.write_all(&bytes);
    }
    let out = child.wait_with_output().expect("wait grex");
    let _ = std::fs::remove_file(&file_path);
    let stdout = String::from_utf8_lossy(&out.stdout).to_string();
    let stderr = String::from_utf8_lossy(&out.stderr).to_string();
    let exit = out.status.code().unwrap_or(-1);
    let panicked = stderr.contains("panicked at");
    let utf8 = std::str::from_utf8(&sc.content).is_ok();
    // belief: what the library would be given
    let cfg = cli_believe(&sc.flags, sc.minrep, sc.minsub);
    let tcs: Vec<String> = if sc.channel == "args" {
        sc.args.clone()
    } else if utf8 {
        std::str::from_utf8(&sc.content).unwrap().lines().map(|s| s.to_string()).collect()
    } else {
        vec![]
    };
    let usage = (sc.flags.contains(&"with-surrogates") && !sc.flags.contains(&"escape")) || sc.minrep < 1 || sc.minsub < 1;
    let believed = !usage && !tcs.is_empty() && (sc.channel == "args" || (utf8 && sc.readable));
    let lib = if believed { lib_out(&tcs, &cfg) } else { Err("n/a".to_string()) };
    let content_cps: Vec<u32> = if utf8 { cps(std::str::from_utf8(&sc.content).unwrap()) } else { vec![] };
    let ev = json!({
        "ev": "cli", "h": h, "flags": sc.flags, "minrep": sc.minrep, "minsub": sc.minsub, "channel": sc.channel,
        "args": sc.args.iter().map(|a| cps(a)).collect::<Vec<_>>(),
        "content": content_cps, "readable": sc.readable, "utf8": utf8,
        "believed": believed, "cfg": cfg.to_json(), "tcs": tcs.iter().map(|a| cps(a)).collect::<Vec<_>>(),
        "exit": exit, "stdout": cps(&stdout), "stderr_lines": stderr.lines().count(), "panicked": panicked,
        "libok": lib.is_ok(), "lib": cps(lib.as_deref().unwrap_or("")),
    });
    let idx = json!({"h": h, "kind": "cli", "flags": sc.flags, "minrep": sc.minrep, "minsub": sc.minsub,
                     "channel": sc.channel, "args": sc.args, "content": String::from_utf8_lossy(&sc.content),
                     "content_bytes": sc.content, "readable": sc.readable,
                     "exit": exit, "stdout": stdout, "stderr": crate::emit::ascii_only(&stderr),
                     "lib": lib.unwrap_or_else(|e| format!("<{}>", e))});
    (ev, idx)
}

pub fn random_cli_scenario(rng: &mut StdRng, i: usize, thorough: bool) -> CliScenario {
    // flags: every flag alone, all pairs, then random subsets
    let nf = CLI_FLAGS.len();
    let mut flags: Vec<&'static str> = vec![];
    if thorough && i >= 200_000 {
        // thorough tier: ALL 2^16 subsets of the flags (scenario index 200000 + bits)
        let bits = (i - 200_000) as u32;
        for (k, f) in CLI_FLAGS.iter().enumerate() {
            if bits & (1 << k) != 0 {
                flags.push(f);
            }
        }
        flags.shuffle(rng);
        let tcs: Vec<String> = vec!["ab 12".into(), "ab 123".into(), "\u{e9}x\u{1F4A9}\u{1F4A9}".into(), "(ab)".into()];
        let channel = ["args", "stdin", "file", "filestdin"][(bits as usize >> 3) % 4];
        return CliScenario {
            flags,
            minrep: 1,
            minsub: 1,
            channel,
            args: if channel == "args" { tcs.clone() } else { vec![] },
            content: if channel == "args" { vec![] } else { tcs.join("\n").into_bytes() },
            readable: true,
        };
    }
    if i < nf {
        flags.push(CLI_FLAGS[i]);
    } else if i < nf + nf * (nf - 1) {
        // every ORDERED pair: the command line may give the flags in any order
        let k = i - nf;
        let (a, b0) = (k / (nf - 1), k % (nf - 1));
        let b = if b0 >= a { b0 + 1 } else { b0 };
        flags.push(CLI_FLAGS[a]);
        flags.push(CLI_FLAGS[b]);
    } else {
        let bits: u32 = rng.gen();
        for (k, f) in CLI_FLAGS.iter().enumerate() {
            if bits & (1 << k) != 0 && rng.gen_bool(0.6) {
                flags.push(f);
            }
        }
        flags.shuffle(rng);
    }
    // keep usage errors rare
    if flags.contains(&"with-surrogates") && !flags.contains(&"escape") && rng.gen_bool(0.85) {
        flags.push("escape");
    }
    let minrep = if rng.gen_bool(0.03) { 0 } else if rng.gen_bool(0.3) { rng.gen_range(1..=3) } else { 1 };
    let minsub = if rng.gen_bool(0.03) { 0 } else if rng.gen_bool(0.3) { rng.gen_range(1..=3) } else { 1 };
    let channel = ["args", "stdin", "file", "filestdin"][rng.gen_range(0..4)];
    let letters: Vec<&str> = vec!["a", "b", "1", " ", "x\u{e9}", "\u{1F4A9}", "(", "\\", "-", "\t"];
    let mut tcs = shaped_set(rng, &letters, if thorough { 5 } else { 4 }, 4);
    if channel == "args" {
        tcs.retain(|t| !t.is_empty() && !t.starts_with('-'));
        if tcs.is_empty() {
            tcs.push("ab".to_string());
        }
    } else {
        // lines cannot contain line breaks; blank lines are allowed
        tcs.retain(|t| !t.contains('\n') && !t.contains('\r'));
        if rng.gen_bool(0.15) {
            tcs.push(String::new());
        }
        tcs.shuffle(rng);
    }
    let eol = if rng.gen_bool(0.5) { "\n" } else { "\r\n" };
    let final_nl = rng.gen_bool(0.5);
    let mut content = tcs.join(eol);
    if final_nl && !tcs.is_empty() {
        content.push_str(eol);
    }
    let mut bytes = content.into_bytes();
    let mut readable = true;
    if channel != "args" {
        let r = rng.gen_range(0..100);
        if r < 3 {
            bytes.clear(); // empty input
        } else if r < 6 {
            bytes = vec![b'a', b'\n', 0xff, 0xfe, b'\n']; // invalid UTF-8 after a valid line
        } else if r < 8 {
            bytes = vec![0xc3, 0x28];
        } else if r < 10 && channel != "stdin" {
            readable = false; // missing file
        } else if r < 12 {
            bytes = eol.repeat(rng.gen_range(1..=3)).into_bytes(); // blank lines only
        }
    }
    CliScenario { flags, minrep, minsub, channel, args: if channel == "args" { tcs } else { vec![] }, content: bytes, readable }
}


// ------------------------------------------------------------------------------------------
// Python binding (C14): histories are planned here, executed by drivers/py_driver.py in CPython
// on the extension module built from /repo, and merged with the library's own results.
// ------------------------------------------------------------------------------------------
pub fn py_plan(rng: &mut StdRng, h: usize) -> Value {
    use crate::gen::ASTRAL;
    let mut letters: Vec<&str> = vec!["a", "b"];
    for _ in 0..3 {
        letters.push(ASTRAL[rng.gen_range(0..ASTRAL.len())]);
    }
    if rng.gen_bool(0.3) {
        letters.push([" ", "\u{a0}", "#", "\t", "(", "\\", "1", "\u{130}"][rng.gen_range(0..8)]);
    }
    let mut list = shaped_set(rng, &letters, 3, 4);
    let lookalike = rng.gen_bool(0.08);
    if lookalike {
        // literal text that only LOOKS like a \u{h..} escape once grex has escaped the backslash and counted a
        // repeated 'u' (\\u{3}), or that spells an escape sequence out
        let pool = ["\\uuu", "\\uu", "x\\uuuu\u{e9}", "\\u{e9}", "\\\\uuu", "\\uuu\u{1F4A9}", "\\UUU", "a\\uuuuuuuuuuuu", "\u{e9}\\uu\u{e9}\\uu"];
        list = vec![pool[rng.gen_range(0..pool.len())].to_string()];
        if rng.gen_bool(0.5) {
            list.push(pool[rng.gen_range(0..pool.len())].to_string());
        }
        list.sort();
        list.dedup();
    }
    let mut ops = vec![];
    let empty = rng.gen_bool(0.03);
    ops.push(json!({"op": "new", "o": 1, "list": if empty { vec![] } else { list.clone() },
                    "ctor": if rng.gen_bool(0.5) { "classmethod" } else { "init" }}));
    if lookalike && !empty {
        ops.push(json!({"op": "set", "o": 1, "name": "rep", "arg": 0, "ret": 1}));
        ops.push(json!({"op": "set", "o": 1, "name": "escape", "arg": rng.gen_range(0..=1), "ret": 1}));
    }
    if !empty {
        let names = ["digit", "nondigit", "space", "nonspace", "word", "nonword", "rep", "icase", "capture", "verbose",
                     "nostart", "noend", "noanchors", "escape", "escape", "escape", "minrep", "minsub"];
        for _ in 0..rng.gen_range(0..6) {
            let name = names[rng.gen_range(0..names.len())];
            let arg: i64 = match name {
                "escape" => rng.gen_range(0..=1),
                "minrep" | "minsub" => [1, 2, 3, 0, -1][rng.gen_range(0..5)],
                _ => 0,
            };
            ops.push(json!({"op": "set", "o": 1, "name": name, "arg": arg, "ret": 1}));
            if rng.gen_bool(0.3) {
                ops.push(json!({"op": "build", "o": 1}));
            }
        }
        ops.push(json!({"op": "build", "o": 1}));
    }
    json!({"h": h, "list": list, "ops": ops})
}

pub fn py_merge(plan: &Value, res: &Value) -> (Value, Value) {
    let h = plan["h"].as_u64().unwrap() as usize;
    let list: Vec<String> = plan["list"].as_array().unwrap().iter().map(|s| s.as_str().unwrap().to_string()).collect();
    let mut cfg = Cfg::default();
    let mut intern = Interner::new();
    let mut evops = vec![];
    let mut created = false;
    for (op, r) in plan["ops"].as_array().unwrap().iter().zip(res["res"].as_array().unwrap().iter()) {
        let ok = r["ok"].as_bool().unwrap_or(false);
        let msg = crate::emit::ascii_only(r["msg"].as_str().unwrap_or(""));
        match op["op"].as_str().unwrap() {
            "new" => {
                let n = op["list"].as_array().map(|a| a.len()).unwrap_or(0);
                created = ok;
                evops.push(json!({"op": "new", "o": 1, "set": 1, "n": n, "ok": ok, "msg": msg}));
            }
            "set" => {
                if !created {
                    continue;
                }
                let name = op["name"].as_str().unwrap();
                let arg = op["arg"].as_i64().unwrap_or(0);
                if ok {
                    believe(&mut cfg, name, arg);
                }
                let alias = r["alias"].as_bool().unwrap_or(true);
                evops.push(json!({"op": "set", "o": 1, "name": name, "arg": arg, "ret": if alias { 1 } else { 2 },
                                  "ok": ok, "msg": msg}));
            }
            _ => {
                if !created {
                    continue;
                }
                let out = r["out"].as_str().unwrap_or("");
                let lib = lib_out(&list, &cfg).unwrap_or_else(|e| format!("PANIC {}", e));
                evops.push(json!({"op": "build", "o": 1, "ok": ok, "msg": msg, "cfg": cfg.to_json(),
                                  "sid": intern.id(out), "libsid": intern.id(&lib),
                                  "outcps": cps(out), "libcps": cps(&lib),
                                  "compiles": r["compiles"].as_bool().unwrap_or(false),
                                  "fullmatch": r["fullmatch"].as_bool().unwrap_or(false),
                                  "failed": r["failed"].as_array().map(|a| a.iter().map(|t| cps(t.as_str().unwrap_or(""))).collect::<Vec<_>>()).unwrap_or_default()}));
            }
        }
    }
    (
        json!({"ev": "hist", "front": "py", "h": h, "ops": evops}),
        json!({"h": h, "kind": "hist-py", "plan": plan, "results": res}),
    )
}


// ------------------------------------------------------------------------------------------
// C11: every non-ASCII scalar value alone, escaped with and without surrogate pairs. One compact
// event per block of code points; TLC recomputes every expected token with Grex!EscTok.
// ------------------------------------------------------------------------------------------
pub fn esc_sweep_block(h: usize, first: usize, last: usize, surr: bool) -> (Value, Value) {
    let mut cfg = Cfg::default();
    cfg.escape = true;
    cfg.surr = surr;
    let mut items = vec![];
    for i in first..last {
        let c = crate::gen::scalar(i);
        if (c as u32) < 0x80 {
            continue;
        }
        // (no fresh thread per build here: two million thread creations dominate the sweep)
        let out = crate::model::plain_build(&[c.to_string()], &cfg).unwrap_or_else(|e| format!("PANIC {}", e));
        let toks: Vec<Value> = crate::emit::esc_tokens(&out).iter().map(|(k, v)| json!([k, v])).collect();
        items.push(json!([c as u32, toks]));
    }
    (
        json!({"ev": "escsweep", "h": h, "surr": surr, "items": items}),
        json!({"h": h, "kind": "escsweep", "first": first, "last": last, "surr": surr}),
    )
}


// ------------------------------------------------------------------------------------------
// C07 on large inputs: one fresh process per scenario (default main-thread stack), with a time
// limit. A panic or an abort (stack overflow) is a violation; running out of time is inconclusive.
// ------------------------------------------------------------------------------------------
pub fn run_large(h: usize, what: &str, list: &[String], cfg: &Cfg, self_exe: &str, tmp: &str, limit_s: u64) -> (Value, Value) {
    let plan = json!({"list": list, "cfg": cfg.to_json()});
    let path = format!("{}/large_plan_{}.json", tmp, h);
    std::fs::write(&path, plan.to_string()).unwrap();
    let start = std::time::Instant::now();
    let mut child = std::process::Command::new(self_exe)
        .args(["build-one", &path])
        .stdout(std::process::Stdio::piped())
        .stderr(std::process::Stdio::null())
        .spawn()
        .expect("spawn self");
    // read stdout on a thread so that a large output cannot block the child
    let mut so = child.stdout.take().unwrap();
    let reader = std::thread::spawn(move || {
        let mut buf = Vec::new();
        let _ = std::io::Read::read_to_end(&mut so, &mut buf);
        buf
    });
    let mut outcome = "timeout";
    let mut code: i64 = -1;
    loop {
        match child.try_wait() {
            Ok(Some(st)) => {
                code = st.code().map(|c| c as i64).unwrap_or(-2);
                outcome = if st.success() { "ok" } else { "abort" };
                break;
            }
            Ok(None) => {
                if start.elapsed().as_secs() > limit_s {
                    let _ = child.kill();
                    let _ = child.wait();
                    break;
                }
                std::thread::sleep(std::time::Duration::from_millis(20));
            }
            Err(_) => break,
        }
    }
    let out = String::from_utf8_lossy(&reader.join().unwrap_or_default()).to_string();
    let _ = std::fs::remove_file(&path);
    if outcome == "ok" && out.starts_with("PANIC ") {
        outcome = "panic";
    }
    let engine = !cfg.color && !cfg.surr;
    let valid = outcome == "ok" && engine && crate::parse::parse_hir(&out).is_ok();
    (
        json!({"ev": "large", "h": h, "outcome": outcome, "engine": engine, "valid": valid, "ntcs": list.len(),
               "chars": list.iter().map(|s| s.chars().count()).max().unwrap_or(0), "ms": start.elapsed().as_millis() as u64}),
        json!({"h": h, "kind": "large", "what": what, "cfg": cfg.to_json(), "exit": code, "outcome": outcome,
               "ntcs": list.len(), "first": list.first().map(|s| s.chars().take(40).collect::<String>()),
               "out_prefix": out.chars().take(120).collect::<String>()}),
    )
}

pub fn large_scenarios(rng: &mut StdRng, thorough: bool) -> Vec<(String, Vec<String>, Cfg)> {
    let mut v = vec![];
    let base = Cfg::default();
    let n_many = if thorough { 2000 } else { 800 };
    // many short test cases
    let words: Vec<String> = (0..n_many).map(|i| format!("{}{}", ["ab", "cd", "x", "qq"][i % 4], i * 7919 % 10007)).collect();
    v.push(("many short test cases".to_string(), words.clone(), base.clone()));
    v.push(("many short test cases, digits + repetitions".to_string(), words.clone(), base.with("digit", true).with("rep", true)));
    v.push(("many short test cases, no anchors".to_string(), words.iter().take(n_many / 4).cloned().collect(), base.with("nostart", true).with("noend", true)));
    // one very long test case
    let long_len = if thorough { 5000 } else { 2000 };
    let long: String = (0..long_len).map(|i| ["a", "b", "\u{e9}", "1", " ", "("][(i * 31 + i / 7) % 6]).collect();
    v.push(("one long test case".to_string(), vec![long.clone()], base.clone()));
    v.push(("one long test case, escaped + verbose".to_string(), vec![long.clone()], base.with("escape", true).with("verbose", true)));
    let rep_len = if thorough { 300 } else { 150 };
    let long_rep: String = (0..rep_len).map(|i| ["ab", "ab", "c", "ddd"][(i / 3) % 4]).collect();
    v.push(("long test case with repetition conversion".to_string(), vec![long_rep.clone()], base.with("rep", true)));
    v.push(("long unary test case with repetition conversion".to_string(), vec!["a".repeat(rep_len * 2)], base.with("rep", true)));
    if thorough {
        for k in 0..6 {
            let c = Cfg::from_bits(rng.gen::<u32>() & 0x7FFF);
            let l: Vec<String> = words.iter().skip(k * 50).take(300).cloned().collect();
            v.push((format!("300 test cases, random settings #{}", k), l, c));
        }
    }
    v
}

//! Reading a produced pattern with the target engine's own parser (regex-syntax):
//! syntactic facts from the AST, denotation from the HIR, observations from the regex engine.

use crate::proj::{CharSet, SetTable};
use crate::sem::class_to_set;
use regex_syntax::ast::{self, Ast};
use regex_syntax::hir::{Class, Hir, HirKind, Look};
use serde_json::{json, Value};

pub fn set_ref(table: &mut SetTable, s: CharSet) -> Value {
    json!({ "$set": table.intern(s) })
}

/// HIR -> specification AST (Lang.tla constructors). Returns None for constructs outside the
/// fragment grex is expected to produce (byte classes, word boundaries, ...).
pub fn hir_to_spec(h: &Hir, table: &mut SetTable) -> Option<Value> {
    Some(match h.kind() {
        HirKind::Empty => json!({"t": "eps"}),
        HirKind::Literal(lit) => {
            let s = std::str::from_utf8(&lit.0).ok()?;
            let xs: Vec<Value> = s
                .chars()
                .map(|c| json!({"t": "cls", "s": set_ref(table, CharSet::single(c))}))
                .collect();
            if xs.len() == 1 {
                xs.into_iter().next().unwrap()
            } else {
                json!({"t": "cat", "xs": xs})
            }
        }
        HirKind::Class(Class::Unicode(c)) => {
            json!({"t": "cls", "s": set_ref(table, class_to_set(c))})
        }
        HirKind::Class(Class::Bytes(c)) => {
            // only ASCII byte classes can be represented
            let mut v = vec![];
            for r in c.ranges() {
                if r.end() > 0x7F {
                    return None;
                }
                v.push((r.start() as u32, r.end() as u32));
            }
            json!({"t": "cls", "s": set_ref(table, CharSet::from_ranges(v))})
        }
        HirKind::Look(Look::Start) => json!({"t": "bol"}),
        HirKind::Look(Look::End) => json!({"t": "eol"}),
        HirKind::Look(_) => return None,
        HirKind::Repetition(r) => {
            let x = hir_to_spec(&r.sub, table)?;
            json!({"t": "rep", "x": x, "lo": r.min, "hi": r.max.map(|m| m as i64).unwrap_or(-1), "g": r.greedy})
        }
        HirKind::Capture(c) => json!({"t": "cap", "x": hir_to_spec(&c.sub, table)?}),
        HirKind::Concat(xs) => {
            let v: Option<Vec<Value>> = xs.iter().map(|x| hir_to_spec(x, table)).collect();
            json!({"t": "cat", "xs": v?})
        }
        HirKind::Alternation(xs) => {
            let v: Option<Vec<Value>> = xs.iter().map(|x| hir_to_spec(x, table)).collect();
            json!({"t": "alt", "xs": v?})
        }
    })
}

#[derive(Debug, Default, Clone)]
pub struct AstFacts {
    /// letters of the flag item at the very beginning ("", "i", "x", "ix")
    pub flags: String,
    /// other flag items / flag groups anywhere else
    pub other_flags: u32,
    pub caret_first: bool,
    pub dollar_last: bool,
    pub n_caret: u32,
    pub n_dollar: u32,
    pub n_other_assert: u32,
    pub n_cap: u32,
    pub n_noncap: u32,
    /// counted repetitions {n}, {m,n}, {n,}: (lo, hi (-1 = open), min char length of operand)
    pub counted: Vec<(u32, i64, u32)>,
    pub n_star_plus: u32,
}

fn ast_min_len(a: &Ast) -> u32 {
    match a {
        Ast::Empty(_) | Ast::Flags(_) | Ast::Assertion(_) => 0,
        Ast::Literal(_) | Ast::Dot(_) | Ast::ClassUnicode(_) | Ast::ClassPerl(_)
        | Ast::ClassBracketed(_) => 1,
        Ast::Repetition(r) => {
            let lo = match &r.op.kind {
                ast::RepetitionKind::ZeroOrOne | ast::RepetitionKind::ZeroOrMore => 0,
                ast::RepetitionKind::OneOrMore => 1,
                ast::RepetitionKind::Range(rr) => match rr {
                    ast::RepetitionRange::Exactly(n) => *n,
                    ast::RepetitionRange::AtLeast(n) => *n,
                    ast::RepetitionRange::Bounded(m, _) => *m,
                },
            };
            lo.saturating_mul(ast_min_len(&r.ast))
        }
        Ast::Group(g) => ast_min_len(&g.ast),
        Ast::Alternation(alt) => alt.asts.iter().map(ast_min_len).min().unwrap_or(0),
        Ast::Concat(c) => c.asts.iter().map(ast_min_len).fold(0u32, |a, b| a.saturating_add(b)),
    }
}

fn walk(a: &Ast, f: &mut AstFacts, top_first: bool) {
    match a {
        Ast::Flags(_) => {
            if !top_first {
                f.other_flags += 1;
            }
        }
        Ast::Assertion(x) => match x.kind {
            ast::AssertionKind::StartLine => f.n_caret += 1,
            ast::AssertionKind::EndLine => f.n_dollar += 1,
            _ => f.n_other_assert += 1,
        },
        Ast::Repetition(r) => {
            match &r.op.kind {
                ast::RepetitionKind::Range(rr) => {
                    let (lo, hi) = match rr {
                        ast::RepetitionRange::Exactly(n) => (*n, *n as i64),
                        ast::RepetitionRange::AtLeast(n) => (*n, -1),
                        ast::RepetitionRange::Bounded(m, n) => (*m, *n as i64),
                    };
                    f.counted.push((lo, hi, ast_min_len(&r.ast)));
                }
                ast::RepetitionKind::ZeroOrMore | ast::RepetitionKind::OneOrMore => {
                    f.n_star_plus += 1
                }
                ast::RepetitionKind::ZeroOrOne => {}
            }
            walk(&r.ast, f, false);
        }
        Ast::Group(g) => {
            match &g.kind {
                ast::GroupKind::CaptureIndex(_) | ast::GroupKind::CaptureName { .. } => {
                    f.n_cap += 1
                }
                ast::GroupKind::NonCapturing(fl) => {
                    f.n_noncap += 1;
                    if !fl.items.is_empty() {
                        f.other_flags += 1;
                    }
                }
            }
            walk(&g.ast, f, false);
        }
        Ast::Alternation(alt) => alt.asts.iter().for_each(|x| walk(x, f, false)),
        Ast::Concat(c) => c.asts.iter().for_each(|x| walk(x, f, false)),
        _ => {}
    }
}

fn flag_letters(fl: &ast::Flags) -> Option<String> {
    let mut s = String::new();
    for item in &fl.items {
        match item.kind {
            ast::FlagsItemKind::Flag(ast::Flag::CaseInsensitive) => s.push('i'),
            ast::FlagsItemKind::Flag(ast::Flag::IgnoreWhitespace) => s.push('x'),
            _ => return None,
        }
    }
    Some(s)
}

pub fn ast_facts(pattern: &str) -> Result<AstFacts, String> {
    let a = ast::parse::Parser::new()
        .parse(pattern)
        .map_err(|e| e.to_string())?;
    let mut f = AstFacts::default();
    // top-level items
    let items: Vec<&Ast> = match &a {
        Ast::Concat(c) => c.asts.iter().collect(),
        other => vec![other],
    };
    let mut rest = &items[..];
    if let Some(Ast::Flags(sf)) = rest.first() {
        match flag_letters(&sf.flags) {
            Some(s) => f.flags = s,
            None => f.other_flags += 1,
        }
        rest = &rest[1..];
    }
    if let Some(Ast::Assertion(x)) = rest.first() {
        if x.kind == ast::AssertionKind::StartLine {
            f.caret_first = true;
        }
    }
    if let Some(Ast::Assertion(x)) = rest.last() {
        if x.kind == ast::AssertionKind::EndLine {
            f.dollar_last = true;
        }
    }
    for (i, it) in items.iter().enumerate() {
        walk(it, &mut f, i == 0);
    }
    Ok(f)
}

pub fn parse_hir(pattern: &str) -> Result<Hir, String> {
    regex_syntax::ParserBuilder::new()
        .build()
        .parse(pattern)
        .map_err(|e| e.to_string())
}

/// byte offset -> char offset
pub fn char_offset(s: &str, byte: usize) -> usize {
    s[..byte].chars().count()
}

//! Drivers: what gets executed (DESIGN.md §4.5). A driver is an indexed family of group plans
//! so that rayon can run it in parallel and lazily.

use crate::model::Cfg;
use rand::rngs::StdRng;
use rand::seq::SliceRandom;
use rand::{Rng, SeedableRng};

pub struct RunPlan {
    pub cfg: Cfg,
    pub input: Vec<String>,
    pub schedule: Option<Vec<usize>>,
}

pub struct GroupPlan {
    pub tcs: Vec<String>,
    pub runs: Vec<RunPlan>,
    pub cps: bool,
    pub tag: String,
}

pub struct Driver {
    pub name: String,
    pub thorough: bool,
    pub seed: u64,
    /// pre-computed list of test-case sets for list-based drivers
    sets: Vec<Vec<String>>,
    /// explicit plans read from a file (driver "file:<path>", one JSON object per line)
    file_plans: Vec<serde_json::Value>,
}

/// all words over `alpha` of length <= k (including the empty word), shortest first
pub fn words(alpha: &[&str], k: usize) -> Vec<String> {
    let mut out = vec![String::new()];
    let mut layer = vec![String::new()];
    for _ in 0..k {
        let mut next = vec![];
        for w in &layer {
            for a in alpha {
                next.push(format!("{}{}", w, a));
            }
        }
        out.extend(next.iter().cloned());
        layer = next;
    }
    out
}

/// all non-empty subsets of `universe` with at most `max` elements
pub fn subsets(universe: &[String], max: usize) -> Vec<Vec<String>> {
    let mut out = vec![];
    fn rec(u: &[String], start: usize, max: usize, cur: &mut Vec<String>, out: &mut Vec<Vec<String>>) {
        if !cur.is_empty() {
            out.push(cur.clone());
        }
        if cur.len() == max {
            return;
        }
        for i in start..u.len() {
            cur.push(u[i].clone());
            rec(u, i + 1, max, cur, out);
            cur.pop();
        }
    }
    rec(universe, 0, max, &mut vec![], &mut out);
    out
}

fn run(cfg: Cfg, input: &[String]) -> RunPlan {
    RunPlan { cfg, input: input.to_vec(), schedule: None }
}

impl Driver {
    pub fn new(name: &str, tier: &str, seed: u64) -> Driver {
        let thorough = tier == "thorough";
        let mut d = Driver { name: name.to_string(), thorough, seed, sets: vec![], file_plans: vec![] };
        if let Some(path) = name.strip_prefix("file:") {
            let text = std::fs::read_to_string(path).expect("plan file");
            d.file_plans = text
                .lines()
                .filter(|l| !l.trim().is_empty())
                .map(|l| serde_json::from_str(l).expect("plan line"))
                .collect();
            d.name = "file".into();
            return d;
        }
        match name {
            "small" => {
                let u = words(&["a", "b"], 3);
                d.sets = subsets(&u, if thorough { 5 } else { 3 });
                let u2 = words(&["a", "b", "c"], 2);
                d.sets.extend(subsets(&u2, if thorough { 4 } else { 2 }));
            }
            other => panic!("unknown driver {}", other),
        }
        d
    }

    pub fn count(&self) -> usize {
        if self.name == "file" {
            return self.file_plans.len();
        }
        self.sets.len()
    }

    fn rng(&self, i: usize) -> StdRng {
        StdRng::seed_from_u64(self.seed.wrapping_mul(0x9E3779B97F4A7C15).wrapping_add(i as u64))
    }

    pub fn plan(&self, i: usize) -> Option<GroupPlan> {
        match self.name.as_str() {
            "file" => {
                let v = &self.file_plans[i];
                let strs = |x: &serde_json::Value| -> Vec<String> {
                    x.as_array()
                        .map(|a| a.iter().map(|s| s.as_str().unwrap_or("").to_string()).collect())
                        .unwrap_or_default()
                };
                let tcs = strs(&v["tcs"]);
                let runs = v["runs"]
                    .as_array()
                    .map(|a| {
                        a.iter()
                            .map(|r| RunPlan {
                                cfg: Cfg::from_json(&r["cfg"]),
                                input: if r.get("input").is_some() { strs(&r["input"]) } else { tcs.clone() },
                                schedule: r.get("schedule").and_then(|s| s.as_array()).map(|a| {
                                    a.iter().map(|x| x.as_u64().unwrap_or(0) as usize).collect()
                                }),
                            })
                            .collect()
                    })
                    .unwrap_or_default();
                Some(GroupPlan {
                    tcs,
                    runs,
                    cps: v.get("cps").and_then(|b| b.as_bool()).unwrap_or(false),
                    tag: v.get("tag").and_then(|t| t.as_str()).unwrap_or("file").to_string(),
                })
            }
            "small" => {
                let tcs = self.sets[i].clone();
                let base = Cfg::default();
                let mut runs = vec![run(base.clone(), &tcs)];
                for f in ["rep", "icase", "verbose", "capture", "escape", "nostart", "noend"] {
                    runs.push(run(base.with(f, true), &tcs));
                }
                runs.push(run(base.with("nostart", true).with("noend", true), &tcs));
                let mut rng = self.rng(i);
                let mut shuffled = tcs.clone();
                shuffled.shuffle(&mut rng);
                if rng.gen_bool(0.5) {
                    shuffled.push(tcs[0].clone());
                }
                runs.push(run(base.clone(), &shuffled));
                Some(GroupPlan { tcs, runs, cps: false, tag: "small".into() })
            }
            _ => None,
        }
    }
}

//! Drivers: what gets executed (DESIGN.md §4.5). A driver is an indexed family of group plans
//! so that rayon can run it in parallel and lazily. Everything random derives from the seed.

use crate::model::Cfg;
use rand::rngs::StdRng;
use rand::seq::SliceRandom;
use rand::{Rng, SeedableRng};

pub struct RunPlan {
    pub cfg: Cfg,
    pub input: Vec<String>,
    pub schedule: Option<Vec<usize>>,
}

pub struct GroupPlan {
    pub tcs: Vec<String>,
    pub runs: Vec<RunPlan>,
    pub cps: bool,
    pub tag: String,
}

pub struct Driver {
    pub name: String,
    pub thorough: bool,
    pub seed: u64,
    /// pre-computed list of test-case sets for list-based drivers
    sets: Vec<Vec<String>>,
    /// explicit plans read from a file (driver "file:<path>", one JSON object per line)
    file_plans: Vec<serde_json::Value>,
    n: usize,
}

/// all words over `alpha` of length <= k (including the empty word), shortest first
pub fn words(alpha: &[&str], k: usize) -> Vec<String> {
    let mut out = vec![String::new()];
    let mut layer = vec![String::new()];
    for _ in 0..k {
        let mut next = vec![];
        for w in &layer {
            for a in alpha {
                next.push(format!("{}{}", w, a));
            }
        }
        out.extend(next.iter().cloned());
        layer = next;
    }
    out
}

/// all non-empty subsets of `universe` with at most `max` elements
pub fn subsets(universe: &[String], max: usize) -> Vec<Vec<String>> {
    let mut out = vec![];
    fn rec(u: &[String], start: usize, max: usize, cur: &mut Vec<String>, out: &mut Vec<Vec<String>>) {
        if !cur.is_empty() {
            out.push(cur.clone());
        }
        if cur.len() == max {
            return;
        }
        for i in start..u.len() {
            cur.push(u[i].clone());
            rec(u, i + 1, max, cur, out);
            cur.pop();
        }
    }
    rec(universe, 0, max, &mut vec![], &mut out);
    out
}

fn run(cfg: Cfg, input: &[String]) -> RunPlan {
    RunPlan { cfg, input: input.to_vec(), schedule: None }
}

// ------------------------------------------------------------------------------------------
// alphabets
// ------------------------------------------------------------------------------------------
/// pairs of distinct LOWER-case letters that the regex crate's simple case folding identifies (str::to_lowercase
/// leaves both alone)
pub const FOLD_PAIRS: &[(&str, &str)] = &[
    ("s", "\u{17f}"), ("\u{3c3}", "\u{3c2}"), ("\u{3bc}", "\u{b5}"), ("\u{3b8}", "\u{3d1}"), ("\u{3b2}", "\u{3d0}"),
    ("\u{3b5}", "\u{3f5}"), ("\u{3ba}", "\u{3f0}"), ("\u{3c0}", "\u{3d6}"), ("\u{3c1}", "\u{3f1}"), ("\u{3c6}", "\u{3d5}"),
    ("\u{1e61}", "\u{1e9b}"),
];
pub const SEG_CHARS: &[&str] = &["a", "\\", "\u{301}", "\u{1F3FB}", "\u{200D}", "\n", "\u{D4E}", "\u{1F1E9}", "("];
pub const META: &[&str] = &["(", ")", "[", "]", "{", "}", "+", "*", "-", ".", "?", "|", "^", "$", "\\"];
pub const CLUSTERS: &[&str] = &[
    "\u{1F1E9}\u{1F1EA}",       // regional indicator pair
    "\u{1100}\u{1161}",         // conjoining jamo
    "\u{1F44D}\u{1F3FB}",       // emoji + modifier
    "e\u{301}",                 // base + combining mark
    "\u{600}a",                 // prepend + base
    "\u{1F469}\u{200D}\u{1F4BB}", // ZWJ sequence
    "\r\n",
    "\\\u{1F3FB}",              // backslash + extend
    "\\\u{1F3FB}\u{1F3FB}",     // backslash + extend + extend
    "\\\u{301}",                // backslash + mark
    ".\u{1F3FB}",               // metacharacter + extend
    "\u{D4E}\\",                // prepend + backslash
    "\u{1F3FB}",
    "\u{200D}",
    "a\u{200C}",
    // regex metacharacters inside clusters that are NOT split (no mark / other member)
    "(\u{1F3FB}", ")\u{1F3FC}", "[\u{1F3FD}", "{\u{1F3FE}", "?\u{1F3FF}", "|\u{1F3FB}", "*\u{1F3FB}", "+\u{1F3FB}",
    "^\u{1F3FB}", "$\u{1F3FB}", "\u{D4E}(", "\u{D4E}[", ")\u{FF9E}", "-\u{1F3FB}",
    // ... and metacharacters that are NOT the first character of their cluster (prepended letter, category Lo)
    "\u{D4E}.", "\u{111C2}?", "\u{D4E}*", "\u{111C3}|", "\u{D4E}+", "\u{D4E}$", "\u{D4E}^", "\u{D4E}{", "\u{D4E})", "\u{D4E}.\u{1F3FB}",
];
pub const SPACES: &[&str] = &[
    " ", "\t", "\n", "\u{b}", "\u{c}", "\r", "\u{85}", "\u{a0}", "\u{1680}", "\u{2000}", "\u{2003}",
    "\u{200a}", "\u{2028}", "\u{2029}", "\u{202f}", "\u{205f}", "\u{3000}", "#", "\u{200b}",
];
pub const CASED: &[&str] = &[
    "\u{130}", "\u{1E9E}", "\u{3C2}", "\u{3C3}", "\u{3A3}", "\u{212A}", "k", "K", "\u{2126}", "\u{3C9}",
    "\u{212B}", "\u{E5}", "\u{13A0}", "\u{AB70}", "\u{1C90}", "\u{10D0}", "\u{1C5}", "\u{A7DC}",
    "\u{16EA0}", "\u{131}", "I", "i", "\u{DF}", "S", "s", "\u{17F}", "\u{1F88}", "\u{390}", "\u{1FD3}",
    "A", "a", "Z", "\u{E9}", "\u{C9}",
    // lower-case partners of letters whose mapping the regex crate may not know, and lower-case letters that
    // fold together (long s, final sigma, micro sign)
    "\u{19B}", "\u{16EBB}", "\u{264}", "\u{A7CB}", "\u{B5}", "\u{3BC}",
];
pub const DIGITS: &[&str] = &[
    "0", "7", "\u{663}", "\u{969}", "\u{1D7D7}", "\u{B2}", "\u{2167}", "_", "a", "\u{E9}", " ", "\u{a0}",
    "-", "\u{FF15}", "\u{203F}", "\u{200D}", "\u{300}", "\u{2160}", "\u{3007}", "\u{1F}", "\u{3000}",
    "\u{16EA0}", "\u{A7DC}", "\u{E0100}",
];
pub const ASTRAL: &[&str] = &[
    "\u{1F4A9}", "\u{1D49C}", "\u{10000}", "\u{10FFFF}", "\u{FFFF}", "\u{80}", "\u{7F}", "\u{7FF}", "\u{800}",
    "\u{E9}", "\u{100}", "\u{FFF}", "\u{1000}", "\u{FFFFF}", "\u{100000}", "a", "e\u{301}", "\u{FFFD}",
];
/// clusters of several code points that grex keeps whole and whose members differ in class membership
pub const MIXED_CLUSTERS: &[&str] = &[
    "a\u{1F3FD}", "7\u{1F3FB}", " \u{1F3FC}", "\u{2665}\u{FF9E}", "\u{D4E}1", "\u{D4E}-", "_\u{1F3FF}",
    "\u{663}\u{1F3FB}", "\u{1F1E9}\u{1F1EA}", "\u{1100}\u{1161}", "-\u{FF9F}", "\u{a0}\u{1F3FB}",
];
pub const ESCS: &[&str] = &["\u{1b}", "[", "m", "0", "1", ";", "3", "]", "\\"];
pub const PLAIN: &[&str] = &["a", "b", "c"];

fn pick<'a>(rng: &mut StdRng, xs: &[&'a str]) -> &'a str {
    xs[rng.gen_range(0..xs.len())]
}

/// A random set of test cases over letters drawn from `alphas`, with shapes that share
/// prefixes / suffixes, are prefixes of each other or contain repeats.
pub fn shaped_set(rng: &mut StdRng, letters: &[&str], max_words: usize, max_len: usize) -> Vec<String> {
    let n = rng.gen_range(1..=max_words);
    let mut words: Vec<Vec<&str>> = vec![];
    for _ in 0..n {
        let strategy = rng.gen_range(0..6);
        let mut w: Vec<&str> = vec![];
        match strategy {
            0 | 1 => {
                let len = rng.gen_range(0..=max_len);
                for _ in 0..len {
                    w.push(pick(rng, letters));
                }
            }
            2 if !words.is_empty() => {
                // extend an earlier word (prefix relation)
                w = words[rng.gen_range(0..words.len())].clone();
                for _ in 0..rng.gen_range(1..=2) {
                    w.push(pick(rng, letters));
                }
            }
            3 if !words.is_empty() => {
                // share a suffix
                let base = &words[rng.gen_range(0..words.len())];
                let keep = rng.gen_range(0..=base.len());
                for _ in 0..rng.gen_range(0..=2) {
                    w.push(pick(rng, letters));
                }
                w.extend_from_slice(&base[base.len() - keep..]);
            }
            4 => {
                // repeated unit
                let ulen = rng.gen_range(1..=2);
                let unit: Vec<&str> = (0..ulen).map(|_| pick(rng, letters)).collect();
                let k = rng.gen_range(2..=4);
                if rng.gen_bool(0.5) {
                    w.push(pick(rng, letters));
                }
                for _ in 0..k {
                    w.extend_from_slice(&unit);
                }
                if rng.gen_bool(0.5) {
                    w.push(pick(rng, letters));
                }
            }
            _ => {
                // share a prefix, different tail
                if let Some(base) = words.last() {
                    let keep = rng.gen_range(0..=base.len());
                    w.extend_from_slice(&base[..keep]);
                }
                for _ in 0..rng.gen_range(0..=2) {
                    w.push(pick(rng, letters));
                }
            }
        }
        if w.len() > max_len + 2 {
            w.truncate(max_len + 2);
        }
        words.push(w);
    }
    let mut out: Vec<String> = words.iter().map(|w| w.concat()).collect();
    out.sort();
    out.dedup();
    out
}

fn letters_from(rng: &mut StdRng, pools: &[&'static [&'static str]], k: usize) -> Vec<&'static str> {
    let mut v: Vec<&'static str> = vec![];
    for _ in 0..k {
        let pool = pools[rng.gen_range(0..pools.len())];
        v.push(pick(rng, pool));
    }
    v.sort();
    v.dedup();
    v
}

/// random engine-bound settings (no colour, no surrogates)
fn random_cfg(rng: &mut StdRng, allow_classes: bool) -> Cfg {
    let mut bits: u32 = rng.gen::<u32>() & 0x7FFF;
    bits &= !(1 << 14); // colour
    bits &= !(1 << 10); // surrogates
    if !allow_classes {
        bits &= !0x3F;
    }
    let mut c = Cfg::from_bits(bits);
    if c.rep && rng.gen_bool(0.3) {
        c.min_rep = rng.gen_range(1..=3);
        c.min_sub = rng.gen_range(1..=3);
    }
    c
}

const CLASS_FLAGS: [&str; 6] = ["digit", "nondigit", "space", "nonspace", "word", "nonword"];

fn class_cfg(bits: u32) -> Cfg {
    let mut c = Cfg::default();
    for (i, f) in CLASS_FLAGS.iter().enumerate() {
        if bits & (1 << i) != 0 {
            c = c.with(f, true);
        }
    }
    c
}

/// scalar value by index (skipping the surrogate block): 0 .. 1_112_064
pub fn scalar(i: usize) -> char {
    let cp = if i < 0xD800 { i } else { i + 0x800 };
    char::from_u32(cp as u32).unwrap()
}
pub const N_SCALARS: usize = 0x110000 - 0x800;

impl Driver {
    pub fn new(name: &str, tier: &str, seed: u64) -> Driver {
        let thorough = tier == "thorough";
        let mut d = Driver {
            name: name.to_string(),
            thorough,
            seed,
            sets: vec![],
            file_plans: vec![],
            n: 0,
        };
        if let Some(path) = name.strip_prefix("file:") {
            let text = std::fs::read_to_string(path).expect("plan file");
            d.file_plans = text
                .lines()
                .filter(|l| !l.trim().is_empty())
                .map(|l| serde_json::from_str(l).expect("plan line"))
                .collect();
            d.name = "file".into();
            d.n = d.file_plans.len();
            return d;
        }
        let q = |quick: usize, thor: usize| if thorough { thor } else { quick };
        match name {
            // exhaustive small scope: all subsets of {a,b}^<=3 and {a,b,c}^<=2 (with the empty word)
            "small" | "small-anchors" | "small-default" | "small-rep" => {
                let u = words(&["a", "b"], 3);
                d.sets = subsets(&u, q(3, 5));
                let u2 = words(&["a", "b", "c"], 2);
                d.sets.extend(subsets(&u2, q(2, 4)));
                d.n = d.sets.len();
            }
            // character classes: runs of consecutive code points around every character that needs
            // escaping somewhere (regex metacharacters, class metacharacters, control characters)
            "char-classes" => {
                let specials: Vec<u32> = "()[]{}+*-.?|^$\\#&~ \t\n\r\u{b}\u{c}\u{1b}\u{7f}\u{a0}\u{ad}\u{2028}\u{d7ff}\u{e000}\u{ffff}\u{10000}\u{10ffff}"
                    .chars()
                    .map(|c| c as u32)
                    .collect();
                // runs are taken in scalar-value order, i.e. across the surrogate gap U+D7FF -> U+E000
                let index_of = |cp: u32| -> usize { if cp < 0xD800 { cp as usize } else { cp as usize - 0x800 } };
                for &m in &specials {
                    for len in 2..=5usize {
                        for off in 0..len {
                            let start = index_of(m).saturating_sub(off);
                            let set: Vec<String> = (start..start + len)
                                .filter(|&i| i < N_SCALARS)
                                .map(|i| scalar(i).to_string())
                                .collect();
                            if set.len() == len {
                                d.sets.push(set.clone());
                                // the same run behind a common prefix and with a gap
                                d.sets.push(set.iter().map(|c| format!("x{}", c)).collect());
                                if len >= 4 {
                                    let mut gap = set.clone();
                                    gap.remove(2);
                                    d.sets.push(gap);
                                }
                            }
                        }
                    }
                }
                d.sets.sort();
                d.sets.dedup();
                d.n = d.sets.len();
            }
            "adversarial" => d.n = q(1500, 9000),
            "near-miss" => d.n = q(1500, 9000),
            "classes" => d.n = q(1200, 6000),
            "icase-words" => d.n = q(1500, 9000),
            "icase-sweep" => d.n = N_SCALARS,
            "class-sweep" => d.n = N_SCALARS + (N_SCALARS - 5) / 16,
            "escape-sweep" => d.n = N_SCALARS,
            "repeats" => d.n = q(1500, 9000),
            "thresholds" => d.n = q(500, 3000),
            "presentation" => d.n = q(1200, 6000),
            "anchors" => d.n = q(1500, 9000),
            "escape-words" => d.n = q(1200, 6000),
            "color" => d.n = q(1200, 6000),
            "lattice" => d.n = q(300, 2000),
            "orders" => d.n = q(1200, 6000),
            "stages" => d.n = q(800, 5000),
            "fallbacks" => d.n = q(500, 3000),
            "big" => d.n = q(40, 240),
            // all words of length <= 4 (thorough: 5) over one representative of every grapheme-break / category kind
            "segments" => d.n = (1..=(if thorough { 5 } else { 4 })).map(|k| SEG_CHARS.len().pow(k)).sum(),
            other => panic!("unknown driver {}", other),
        }
        d
    }

    pub fn count(&self) -> usize {
        self.n
    }

    fn rng(&self, i: usize) -> StdRng {
        StdRng::seed_from_u64(
            self.seed
                .wrapping_mul(0x9E3779B97F4A7C15)
                .wrapping_add(i as u64)
                .wrapping_add(self.name.len() as u64 * 7919),
        )
    }

    pub fn plan(&self, i: usize) -> Option<GroupPlan> {
        let mut rng = self.rng(i);
        let base = Cfg::default();
        let tag = self.name.clone();
        let mk = |tcs: Vec<String>, runs: Vec<RunPlan>| Some(GroupPlan { tcs, runs, cps: false, tag: tag.clone() });
        match self.name.as_str() {
            "file" => {
                let v = &self.file_plans[i];
                let strs = |x: &serde_json::Value| -> Vec<String> {
                    x.as_array()
                        .map(|a| a.iter().map(|s| s.as_str().unwrap_or("").to_string()).collect())
                        .unwrap_or_default()
                };
                let tcs = strs(&v["tcs"]);
                let runs = v["runs"]
                    .as_array()
                    .map(|a| {
                        a.iter()
                            .map(|r| RunPlan {
                                cfg: Cfg::from_json(&r["cfg"]),
                                input: if r.get("input").map(|x| x.is_array()).unwrap_or(false) {
                                    strs(&r["input"])
                                } else {
                                    tcs.clone()
                                },
                                schedule: r.get("schedule").and_then(|s| s.as_array()).map(|a| {
                                    a.iter().map(|x| x.as_u64().unwrap_or(0) as usize).collect()
                                }),
                            })
                            .collect()
                    })
                    .unwrap_or_default();
                Some(GroupPlan {
                    tcs,
                    runs,
                    cps: v.get("cps").and_then(|b| b.as_bool()).unwrap_or(false),
                    tag: v.get("tag").and_then(|t| t.as_str()).unwrap_or("file").to_string(),
                })
            }
            "small" => {
                let tcs = self.sets[i].clone();
                let mut runs = vec![run(base.clone(), &tcs)];
                for f in ["rep", "icase", "verbose", "capture", "escape", "nostart", "noend"] {
                    runs.push(run(base.with(f, true), &tcs));
                }
                runs.push(run(base.with("nostart", true).with("noend", true), &tcs));
                let mut shuffled = tcs.clone();
                shuffled.shuffle(&mut rng);
                if rng.gen_bool(0.5) {
                    shuffled.push(tcs[0].clone());
                }
                runs.push(run(base.clone(), &shuffled));
                mk(tcs, runs)
            }
            "char-classes" => {
                let tcs = self.sets[i].clone();
                let mut runs = vec![run(base.clone(), &tcs)];
                for f in ["verbose", "capture", "escape", "icase", "nostart"] {
                    runs.push(run(base.with(f, true), &tcs));
                }
                runs.push(run(base.with("verbose", true).with("escape", true), &tcs));
                mk(tcs, runs)
            }
            "small-default" => {
                let tcs = self.sets[i].clone();
                let mut runs = vec![run(base.clone(), &tcs)];
                for f in ["verbose", "capture", "escape"] {
                    runs.push(run(base.with(f, true), &tcs));
                }
                runs.push(run(base.with("verbose", true).with("capture", true).with("escape", true), &tcs));
                mk(tcs, runs)
            }
            "small-rep" => {
                let tcs = self.sets[i].clone();
                let mut runs = vec![run(base.clone(), &tcs), run(base.with("rep", true), &tcs)];
                runs.push(run(base.with("rep", true).thresholds(2, 1), &tcs));
                runs.push(run(base.with("rep", true).thresholds(1, 2), &tcs));
                mk(tcs, runs)
            }
            "small-anchors" => {
                let tcs = self.sets[i].clone();
                let mut runs = vec![];
                for ctx in [base.clone(), base.with("rep", true), base.with("verbose", true), base.with("icase", true)] {
                    runs.push(run(ctx.clone(), &tcs));
                    runs.push(run(ctx.with("nostart", true), &tcs));
                    runs.push(run(ctx.with("noend", true), &tcs));
                    runs.push(run(ctx.with("nostart", true).with("noend", true), &tcs));
                }
                mk(tcs, runs)
            }
            // C01/C07: exotic alphabets, random engine-bound settings
            "adversarial" => {
                let pools: [&'static [&'static str]; 7] = [META, CLUSTERS, SPACES, CASED, DIGITS, ASTRAL, PLAIN];
                let k = rng.gen_range(2..=5);
                let focus = rng.gen_range(0..pools.len());
                let mut letters = letters_from(&mut rng, &[pools[focus]], k);
                letters.extend(letters_from(&mut rng, &pools, 2));
                let tcs = shaped_set(&mut rng, &letters, 4, 4);
                let mut runs = vec![run(base.clone(), &tcs)];
                for _ in 0..7 {
                    let c = random_cfg(&mut rng, true);
                    runs.push(run(c, &tcs));
                }
                mk(tcs, runs)
            }
            // C02: default + presentation-neutral settings on near-miss shapes
            "near-miss" => {
                let pools: [&'static [&'static str]; 5] = [META, CLUSTERS, SPACES, ASTRAL, PLAIN];
                let mut letters = letters_from(&mut rng, &pools, 3);
                letters.extend(letters_from(&mut rng, &[PLAIN], 2));
                let tcs = shaped_set(&mut rng, &letters, 5, 5);
                let mut runs = vec![run(base.clone(), &tcs)];
                for f in ["verbose", "capture", "escape", "nostart", "noend"] {
                    runs.push(run(base.with(f, true), &tcs));
                }
                runs.push(run(base.with("verbose", true).with("capture", true).with("escape", true), &tcs));
                mk(tcs, runs)
            }
            // C03: class conversion on multi-script digits / letters / spaces
            "classes" => {
                let pools: [&'static [&'static str]; 5] = [DIGITS, SPACES, CASED, PLAIN, MIXED_CLUSTERS];
                let mut letters = letters_from(&mut rng, &[DIGITS], 3);
                letters.extend(letters_from(&mut rng, &pools, 3));
                if rng.gen_bool(0.3) {
                    letters.extend(letters_from(&mut rng, &[MIXED_CLUSTERS], 1));
                }
                let mut tcs = shaped_set(&mut rng, &letters, 3, 3);
                if rng.gen_bool(0.08) {
                    // literal text that SPELLS a class escape next to characters of that class (D16: the repeated
                    // two-character text \d and the repeated class \d have the same concatenated label text)
                    let (esc, sample) = [("\\d", "1"), ("\\d", "\u{663}"), ("\\s", " "), ("\\w", "a"), ("\\D", "x"), ("\\W", "-"), ("\\S", "x")][rng.gen_range(0..7)];
                    let n = rng.gen_range(1..=3);
                    let (pre, suf) = (["", "x", "1"][rng.gen_range(0..3)], ["", "y", " "][rng.gen_range(0..3)]);
                    tcs = vec![format!("{}{}{}", pre, sample.repeat(n), suf), format!("{}{}{}", pre, esc.repeat(n), suf)];
                    if rng.gen_bool(0.4) {
                        tcs.push(format!("{}{}{}", pre, esc.repeat(n + 1), suf));
                    }
                    tcs.sort();
                    tcs.dedup();
                    let mut runs = vec![run(base.clone(), &tcs), run(base.with("rep", true), &tcs)];
                    for _ in 0..4 {
                        let c = class_cfg(rng.gen_range(1..64u32));
                        runs.push(run(c.with("rep", true), &tcs));
                        runs.push(run(c.clone(), &tcs));
                    }
                    for f in ["digit", "space", "word", "nondigit", "nonword", "nonspace"] {
                        runs.push(run(base.with(f, true).with("rep", true), &tcs));
                    }
                    return mk(tcs, runs);
                }
                let mut runs = vec![run(base.clone(), &tcs)];
                let nsub = if self.thorough { 10 } else { 6 };
                for _ in 0..nsub {
                    let bits = rng.gen_range(1..64u32);
                    let c = class_cfg(bits);
                    runs.push(run(c.clone(), &tcs));
                    let extra = ["rep", "icase", "verbose", "capture", "escape"][rng.gen_range(0..5)];
                    runs.push(run(c.with(extra, true), &tcs));
                }
                mk(tcs, runs)
            }
            // C04: case-insensitive matching on special-casing letters, sets differing only by case
            "icase-words" => {
                let mut letters = letters_from(&mut rng, &[CASED], 4);
                letters.extend(letters_from(&mut rng, &[PLAIN, DIGITS, META], 1));
                let mut tcs = shaped_set(&mut rng, &letters, 3, 4);
                // add case variants of some members
                let mut extra: Vec<String> = vec![];
                for t in tcs.iter() {
                    if rng.gen_bool(0.4) {
                        extra.push(if rng.gen_bool(0.5) { t.to_uppercase() } else { t.to_lowercase() });
                    }
                }
                tcs.extend(extra);
                tcs.sort();
                tcs.dedup();
                let ic = base.with("icase", true);
                let mut runs = vec![run(base.clone(), &tcs), run(ic.clone(), &tcs)];
                for f in ["rep", "verbose", "escape", "capture", "word"] {
                    runs.push(run(ic.with(f, true), &tcs));
                }
                // (?i) together with the class options, the negated ones above all: what the lower-casing step leaves
                // alone (a test case with U+0130 keeps its casing) must not be touched after the conversion either
                let neg = ["nondigit", "nonword", "nonspace", "digit", "space"];
                let k0 = rng.gen_range(0..neg.len());
                runs.push(run(ic.with(neg[k0], true), &tcs));
                runs.push(run(ic.with(neg[(k0 + 1 + rng.gen_range(0..4)) % neg.len()], true).with("rep", rng.gen_bool(0.5)), &tcs));
                {
                    let c = class_cfg(rng.gen_range(1..64u32));
                    runs.push(run(c.with("icase", true), &tcs));
                }
                runs.push(run(ic.with("nostart", true).with("noend", true), &tcs));
                // the same text first without, then with (?i): nothing remembered from the first may leak
                runs.push(run(base.with("rep", true).with("noend", true), &tcs));
                runs.push(run(ic.with("rep", true).with("noend", true), &tcs));
                mk(tcs, runs)
            }
            // every scalar value alone, case-insensitively
            "icase-sweep" => {
                let c = scalar(i);
                let tcs = vec![c.to_string()];
                mk(tcs.clone(), vec![run(base.with("icase", true), &tcs)])
            }
            // C09: every scalar value alone under the six single class flags (quick) /
            // all 64 subsets (thorough)
            "class-sweep" => {
                // indices beyond the scalar values: every 16th scalar value in front of an emoji modifier - the two
                // code points form ONE grapheme cluster, and each must still be classified on its own
                let in_cluster = i >= N_SCALARS;
                let c = if in_cluster { scalar((i - N_SCALARS) * 16 + 5) } else { scalar(i) };
                if in_cluster && (c.is_control() || (c as u32) <= 0x20) {
                    return None;
                }
                let tcs = if in_cluster { vec![format!("{}\u{1F3FB}", c)] } else { vec![c.to_string()] };
                let mut runs = vec![];
                if self.thorough {
                    for bits in 1..64u32 {
                        runs.push(run(class_cfg(bits), &tcs));
                    }
                } else {
                    for bit in 0..6 {
                        runs.push(run(class_cfg(1 << bit), &tcs));
                    }
                    // a few multi-flag subsets, rotating with the code point
                    let b = ((i as u32).wrapping_mul(2654435761) >> 7) % 63 + 1;
                    runs.push(run(class_cfg(b), &tcs));
                    runs.push(run(class_cfg(63), &tcs));
                }
                // the converted (or unconverted) character inside the free-spacing layout: one flag rotating with the
                // code point, every flag for the characters that the layout could swallow (White_Space, '#')
                let swallowed = !in_cluster && (c.is_whitespace() || c == '#');
                if swallowed {
                    for bit in 0..6 {
                        runs.push(run(class_cfg(1 << bit).with("verbose", true), &tcs));
                    }
                    runs.push(run(class_cfg(0b000101).with("verbose", true), &tcs));
                } else {
                    runs.push(run(class_cfg(1 << (i % 6)).with("verbose", true), &tcs));
                }
                mk(tcs, runs)
            }
            // C11: every non-ASCII scalar alone, escaped with and without surrogates
            "escape-sweep" => {
                let c = scalar(i);
                if (c as u32) < 0x7F {
                    return None;
                }
                let tcs = vec![c.to_string()];
                let e = base.with("escape", true);
                mk(tcs.clone(), vec![run(base.clone(), &tcs), run(e.clone(), &tcs), run(e.with("surr", true), &tcs)])
            }
            // C05: repeats with shared prefixes and different continuations
            "repeats" => {
                if rng.gen_bool(0.06) {
                    // literal text spelling a class escape next to members of the class, around a repetition
                    // (different symbol sequences whose label texts concatenate to the same string)
                    let (esc, sample, flag) = [("\\d", "1", "digit"), ("\\s", " ", "space"), ("\\w", "a", "word"), ("\\d", "7", "digit")][rng.gen_range(0..4)];
                    let mid = ["xx", "yyy", "", "abab"][rng.gen_range(0..4)];
                    let n = rng.gen_range(1..=2);
                    let tcs0 = vec![
                        format!("{}{}{}", sample.repeat(n), mid, sample),
                        format!("{}{}{}", esc.repeat(n), mid, esc),
                    ];
                    let mut tcs = tcs0.clone();
                    tcs.sort();
                    let c = base.with(flag, true);
                    let runs = vec![run(c.clone(), &tcs), run(c.with("rep", true), &tcs), run(base.with("rep", true), &tcs),
                                    RunPlan { cfg: c.with("rep", true), input: vec![tcs0[1].clone(), tcs0[0].clone()], schedule: None }];
                    return mk(tcs, runs);
                }
                let pools: [&'static [&'static str]; 4] = [PLAIN, DIGITS, CLUSTERS, META];
                let mut letters = letters_from(&mut rng, &[PLAIN], 2);
                if rng.gen_bool(0.4) {
                    letters.extend(letters_from(&mut rng, &pools, 2));
                }
                let n = rng.gen_range(1..=4);
                let mut tcs = vec![];
                let prefix_len = rng.gen_range(0..=2);
                let prefix: String = (0..prefix_len).map(|_| pick(&mut rng, &letters)).collect();
                let unit_len = rng.gen_range(1..=3);
                let unit: String = (0..unit_len).map(|_| pick(&mut rng, &letters)).collect();
                for _ in 0..n {
                    let k = rng.gen_range(1..=5);
                    let mut w = prefix.clone();
                    if rng.gen_bool(0.2) {
                        // nested period
                        let inner = unit.repeat(2) + pick(&mut rng, &letters);
                        w += &inner.repeat(k.min(3));
                    } else {
                        w += &unit.repeat(k);
                    }
                    for _ in 0..rng.gen_range(0..=2) {
                        w += pick(&mut rng, &letters);
                    }
                    tcs.push(w);
                }
                if rng.gen_bool(0.3) {
                    tcs.extend(shaped_set(&mut rng, &letters, 2, 4));
                }
                tcs.sort();
                tcs.dedup();
                let mut runs = vec![];
                let ctxs = [
                    base.clone(),
                    base.with("digit", true),
                    base.with("word", true),
                    base.with("icase", true),
                    base.with("escape", true),
                    base.with("verbose", true),
                    base.with("capture", true),
                ];
                let ctx = if rng.gen_bool(0.5) { base.clone() } else { ctxs[rng.gen_range(0..ctxs.len())].clone() };
                runs.push(run(ctx.clone(), &tcs));
                runs.push(run(ctx.with("rep", true), &tcs));
                for _ in 0..4 {
                    let (mr, ms) = (rng.gen_range(1..=4), rng.gen_range(1..=4));
                    runs.push(run(ctx.with("rep", true).thresholds(mr, ms), &tcs));
                }
                if rng.gen_bool(0.1) {
                    runs.push(run(ctx.with("rep", true).thresholds(u32::MAX, 1), &tcs));
                    runs.push(run(ctx.with("rep", true).thresholds(1, u32::MAX), &tcs));
                }
                mk(tcs, runs)
            }
            // C13: unary, periodic and nested repeats under a grid of thresholds
            "thresholds" => {
                let letters = letters_from(&mut rng, &[PLAIN, DIGITS], 3);
                let mut tcs = vec![];
                for _ in 0..rng.gen_range(1..=3) {
                    let mut w = String::new();
                    for _ in 0..rng.gen_range(1..=3) {
                        let ulen = rng.gen_range(1..=3);
                        let unit: String = (0..ulen).map(|_| pick(&mut rng, &letters)).collect();
                        let k = rng.gen_range(1..=7);
                        if rng.gen_bool(0.2) {
                            let inner = unit.repeat(rng.gen_range(2..=3)) + pick(&mut rng, &letters);
                            w += &inner.repeat(rng.gen_range(2..=3));
                        } else {
                            w += &unit.repeat(k);
                        }
                    }
                    tcs.push(w);
                }
                tcs.sort();
                tcs.dedup();
                let ctx = match rng.gen_range(0..5) {
                    0 => base.with("digit", true),
                    1 => base.with("verbose", true),
                    2 => base.with("capture", true),
                    3 => base.with("escape", true),
                    _ => base.clone(),
                };
                let mut runs = vec![run(ctx.clone(), &tcs)];
                let grid: Vec<(u32, u32)> = if self.thorough {
                    (1..=6).flat_map(|a| (1..=6).map(move |b| (a, b))).collect()
                } else {
                    let mut g = vec![(1, 1)];
                    for _ in 0..7 {
                        g.push((rng.gen_range(1..=6), rng.gen_range(1..=6)));
                    }
                    g
                };
                for (mr, ms) in grid {
                    runs.push(run(ctx.with("rep", true).thresholds(mr, ms), &tcs));
                }
                // thresholds WITHOUT the conversion: they must have no effect (no counted repetition unless requested)
                runs.push(run(ctx.thresholds(rng.gen_range(2..=4), 1), &tcs));
                runs.push(run(ctx.thresholds(rng.gen_range(1..=3), rng.gen_range(2..=3)), &tcs));
                // repeat the second build after all the others (no state may leak between builds)
                let again = RunPlan { cfg: runs[1].cfg.clone(), input: runs[1].input.clone(), schedule: None };
                runs.push(again);
                mk(tcs, runs)
            }
            // C06: all 8 subsets of {verbose, capture, escape} in several contexts
            "presentation" => {
                let pools: [&'static [&'static str]; 5] = [SPACES, SPACES, ASTRAL, CLUSTERS, META];
                let mut letters = letters_from(&mut rng, &pools, 4);
                letters.extend(letters_from(&mut rng, &[PLAIN], 2));
                let mut tcs = shaped_set(&mut rng, &letters, 4, 4);
                let ranged = rng.gen_bool(0.12);
                if ranged {
                    // a unit of two or three symbols repeated n and n+1 times at the same position: the quantifier
                    // {n,n+1} of a GROUP (its own rendering branch in verbose mode)
                    let u: String = (0..rng.gen_range(2..=3)).map(|_| letters[rng.gen_range(0..letters.len())]).collect();
                    let n = rng.gen_range(2..=3);
                    let (pre, suf) = (["", "x"][rng.gen_range(0..2)], ["", "z", "zz"][rng.gen_range(0..3)]);
                    tcs = vec![format!("{}{}{}", pre, u.repeat(n), suf), format!("{}{}{}", pre, u.repeat(n + 1), suf)];
                    tcs.sort();
                    tcs.dedup();
                }
                let rep_cluster = !ranged && rng.gen_bool(0.1);
                if rep_cluster {
                    // ONE grapheme cluster of several non-ASCII code points (kept whole by grex) repeated: with escaping it
                    // is several escapes, and the quantifier has to bind to all of them
                    let cl = ["\u{1F1E9}\u{1F1EA}", "\u{1100}\u{1161}", "\u{1F44D}\u{1F3FB}", "\u{E01}\u{E33}", "\u{1100}\u{1161}\u{11A8}",
                              "\u{2665}\u{FF9E}", "\u{663}\u{1F3FB}"][rng.gen_range(0..7)];
                    let n = rng.gen_range(2..=4);
                    let (pre, suf) = (["", "x", "\u{E9}"][rng.gen_range(0..3)], ["", "z", "\u{1F4A9}"][rng.gen_range(0..3)]);
                    tcs = vec![format!("{}{}{}", pre, cl.repeat(n), suf)];
                    if rng.gen_bool(0.4) {
                        tcs.push(format!("{}{}{}", pre, cl.repeat(n + 1), suf));
                    }
                    if rng.gen_bool(0.3) {
                        tcs.push(format!("{}{}", pre, suf));
                    }
                    tcs.sort();
                    tcs.dedup();
                }
                let ctx = match if ranged || rep_cluster { 0 } else { rng.gen_range(0..7) } {
                    0 => base.with("rep", true),
                    1 => base.with("icase", true),
                    2 => base.with("word", true),
                    3 => base.with("nostart", true).with("noend", true),
                    4 => base.with("space", true),
                    5 => base.with("nonspace", true),
                    _ => base.clone(),
                };
                let mut runs = vec![];
                for bits in [0u32, 1, 2, 4, 3, 5, 6, 7] {
                    let mut c = ctx.clone();
                    c.verbose = bits & 1 != 0;
                    c.capture = bits & 2 != 0;
                    c.escape = bits & 4 != 0;
                    runs.push(run(c, &tcs));
                }
                mk(tcs, runs)
            }
            // C08: prefix-related sets (also grapheme-cluster / class / repetition variants)
            "anchors" => {
                let pools: [&'static [&'static str]; 4] = [PLAIN, CLUSTERS, DIGITS, CASED];
                let mut letters = letters_from(&mut rng, &[PLAIN], 2);
                if rng.gen_bool(0.5) {
                    letters.extend(letters_from(&mut rng, &pools, 2));
                }
                if rng.gen_bool(0.12) {
                    // distinct lower-case letters of one simple case-folding orbit: under (?i) one test case is a
                    // prefix of the other although the strings share nothing; the same sets are built first without
                    // and then with case-insensitive matching (same expression text, different flag)
                    let (x, y) = FOLD_PAIRS[rng.gen_range(0..FOLD_PAIRS.len())];
                    let (x, y) = if rng.gen_bool(0.5) { (x, y) } else { (y, x) };
                    let mut tcs = vec![x.to_string(), y.repeat(rng.gen_range(2..=4))];
                    if rng.gen_bool(0.4) {
                        tcs.push(format!("{}{}", pick(&mut rng, PLAIN), x));
                    }
                    tcs.sort();
                    tcs.dedup();
                    let open = if rng.gen_bool(0.6) { base.with("noend", true) } else { base.with("noend", true).with("nostart", true) };
                    let runs = vec![
                        run(open.clone(), &tcs),
                        run(open.with("icase", true), &tcs),
                        run(open.with("rep", true), &tcs),
                        run(open.with("rep", true).with("icase", true), &tcs),
                    ];
                    return mk(tcs, runs);
                }
                let tcs = shaped_set(&mut rng, &letters, 5, 4);
                let ctxs = [
                    base.clone(),
                    base.with("verbose", true),
                    base.with("icase", true),
                    base.with("word", true),
                    base.with("digit", true),
                    base.with("rep", true),
                    base.with("capture", true),
                    base.with("escape", true),
                    base.with("rep", true).with("digit", true),
                ];
                let mut runs = vec![];
                let k = rng.gen_range(0..ctxs.len());
                for ctx in [ctxs[0].clone(), ctxs[k].clone()] {
                    runs.push(run(ctx.clone(), &tcs));
                    runs.push(run(ctx.with("nostart", true), &tcs));
                    runs.push(run(ctx.with("noend", true), &tcs));
                    runs.push(run(ctx.with("nostart", true).with("noend", true), &tcs));
                    if k == 0 {
                        break;
                    }
                }
                mk(tcs, runs)
            }
            // C11: words over BMP / astral boundary code points, combining sequences, repeats
            "escape-words" => {
                let mut letters = letters_from(&mut rng, &[ASTRAL], 4);
                letters.extend(letters_from(&mut rng, &[CLUSTERS, PLAIN, SPACES], 2));
                let mut tcs = shaped_set(&mut rng, &letters, 3, 4);
                if rng.gen_bool(0.5) {
                    let u = pick(&mut rng, ASTRAL);
                    tcs.push(u.repeat(rng.gen_range(2..=4)));
                    tcs.sort();
                    tcs.dedup();
                }
                let mut ctx = match rng.gen_range(0..6) {
                    0 => base.with("rep", true),
                    1 => base.with("verbose", true),
                    2 => base.with("nondigit", true),
                    3 => base.with("icase", true),
                    4 => base.with("rep", true).with("capture", true),
                    _ => base.clone(),
                };
                if rng.gen_bool(0.2) {
                    // repetitions nested three or four levels deep with non-ASCII / meta characters at every level:
                    // ((x{2}y){2}z){2} - the escaping has to reach every level
                    let pools: [&'static [&'static str]; 3] = [ASTRAL, META, PLAIN];
                    let l = letters_from(&mut rng, &pools, 2);
                    let a = pick(&mut rng, ASTRAL);
                    let inner = format!("{}{}", a.repeat(rng.gen_range(2..=3)), l[0]);
                    let mid = format!("{}{}", inner.repeat(2), pick(&mut rng, ASTRAL));
                    let mut outer = mid.repeat(2);
                    if rng.gen_bool(0.4) {
                        outer = format!("{}{}", outer, l[l.len() - 1]).repeat(2);
                    }
                    tcs = vec![outer];
                    if rng.gen_bool(0.4) {
                        tcs.push(mid.clone());
                    }
                    tcs.sort();
                    tcs.dedup();
                    ctx = if rng.gen_bool(0.5) { base.with("rep", true) } else { base.with("rep", true).with(["capture", "verbose", "icase"][rng.gen_range(0..3)], true) };
                }
                if rng.gen_bool(0.12) {
                    // non-ASCII white space under the free-spacing layout: the unescaped build writes it in the
                    // four-digit form, the escaped build must still use the one form that C11 names
                    let sp: Vec<&str> = SPACES.iter().copied().filter(|x| !x.is_ascii()).collect();
                    let w = format!("{}{}{}", pick(&mut rng, PLAIN), pick(&mut rng, &sp), pick(&mut rng, ASTRAL));
                    tcs.push(w.clone());
                    if rng.gen_bool(0.5) {
                        tcs.push(pick(&mut rng, &sp).repeat(rng.gen_range(1..=3)));
                    }
                    tcs.sort();
                    tcs.dedup();
                    ctx = base.with("verbose", true).with("rep", rng.gen_bool(0.5));
                }
                if rng.gen_bool(0.1) {
                    // a repeated unit that mixes a character converted to a class with a non-ASCII one that is not:
                    // every member of the unit still has to be escaped
                    let (flag, conv) = [("digit", "1"), ("digit", "\u{663}"), ("space", " "), ("space", "\u{a0}"), ("nonword", "-")][rng.gen_range(0..5)];
                    let other = ["\u{E4}", "\u{1F4A9}", "\u{3C9}", "\u{10000}"][rng.gen_range(0..4)];
                    let unit = if rng.gen_bool(0.5) { format!("{}{}", conv, other) } else { format!("{}{}{}", other, conv, other) };
                    let n = rng.gen_range(2..=3);
                    tcs = vec![format!("{}{}", unit.repeat(n), ["", "x", "\u{E9}"][rng.gen_range(0..3)])];
                    if rng.gen_bool(0.4) {
                        tcs.push(unit.repeat(n + 1));
                    }
                    tcs.sort();
                    tcs.dedup();
                    ctx = base.with(flag, true).with("rep", true).with("verbose", rng.gen_bool(0.25));
                }
                let e = ctx.with("escape", true);
                mk(tcs.clone(), vec![run(ctx.clone(), &tcs), run(e.clone(), &tcs), run(e.with("surr", true), &tcs)])
            }
            // C15: colour on/off twins; literal text resembling SGR sequences
            "color" => {
                let pools: [&'static [&'static str]; 5] = [ESCS, ESCS, PLAIN, META, DIGITS];
                let letters = letters_from(&mut rng, &pools, 5);
                let mut tcs = shaped_set(&mut rng, &letters, 4, 5);
                let after_esc = rng.gen_bool(0.1);
                if after_esc {
                    // a literal ESC directly followed by a character class that spells the tail of an SGR sequence
                    // ("[0m]", "[1;3]"): plain output that resembles a colour code
                    let (pre, suf) = (["", "a", "\u{1b}"][rng.gen_range(0..3)], ["", "z", "m"][rng.gen_range(0..3)]);
                    let members = [["0", "m"], ["0", "1"], ["1", ";"], ["3", "m"], ["0", ";"]][rng.gen_range(0..5)];
                    tcs = members.iter().map(|x| format!("{}\u{1b}{}{}", pre, x, suf)).collect();
                    if rng.gen_bool(0.3) {
                        tcs.push(format!("{}\u{1b}n{}", pre, suf));
                    }
                    if rng.gen_bool(0.5) {
                        // ... or complete SGR look-alikes inside one literal run (coloured log lines)
                        let sgr = ["\u{1b}[0m", "\u{1b}[1;31m", "\u{1b}[104;37m", "\u{1b}[1;33m"];
                        let a = sgr[rng.gen_range(0..sgr.len())];
                        let b = sgr[rng.gen_range(0..sgr.len())];
                        tcs = vec![format!("{}{}red{}", pre, a, b), format!("{}{}red{}{}", pre, a, b, ["x", "mm", "red"][rng.gen_range(0..3)])];
                        if rng.gen_bool(0.5) {
                            tcs.push(format!("{}{}", pre, a));
                        }
                    }
                    tcs.sort();
                    tcs.dedup();
                }
                let mut runs = vec![];
                for k in 0..4 {
                    let mut c = random_cfg(&mut rng, true);
                    if after_esc && k < 2 {
                        c = if k == 0 { base.with("noend", true) } else { base.with("noend", true).with("nostart", true) };
                    }
                    if rng.gen_bool(0.2) {
                        c.escape = true;
                        c.surr = true;
                    }
                    runs.push(run(c.clone(), &tcs));
                    runs.push(run(c.with("color", true), &tcs));
                }
                Some(GroupPlan { tcs, runs, cps: true, tag })
            }
            // C07: the full lattice of 2^15 settings (incl. surrogates and colour) x thresholds
            "lattice" => {
                let pools: [&'static [&'static str]; 7] = [META, CLUSTERS, SPACES, CASED, DIGITS, ASTRAL, PLAIN];
                let letters = letters_from(&mut rng, &pools, 5);
                let tcs = shaped_set(&mut rng, &letters, 4, 4);
                let mut runs = vec![];
                let per = if self.thorough { 96 } else { 56 };
                // a rotating window of the lattice: group i covers settings [i*per, (i+1)*per) mod 2^15
                // so that the whole lattice is covered every 2^15/per groups
                for k in 0..per {
                    let bits = ((i * per + k) as u32).wrapping_mul(40503) & 0x7FFF;
                    let mut c = Cfg::from_bits(bits);
                    if c.rep {
                        let t = [1u32, 2, 3, 7, u32::MAX];
                        c.min_rep = t[rng.gen_range(0..t.len())];
                        c.min_sub = t[rng.gen_range(0..t.len())];
                    }
                    runs.push(run(c, &tcs));
                }
                mk(tcs, runs)
            }
            // C10: list order, duplicates, representative schedules
            "orders" => {
                let pools: [&'static [&'static str]; 4] = [PLAIN, DIGITS, CASED, CLUSTERS];
                let mut letters = letters_from(&mut rng, &[PLAIN], 3);
                letters.extend(letters_from(&mut rng, &pools, 2));
                let tcs = shaped_set(&mut rng, &letters, 6, 3);
                let mut runs = vec![];
                for _ in 0..2 {
                    let c = random_cfg(&mut rng, true);
                    runs.push(run(c.clone(), &tcs));
                    for _ in 0..3 {
                        let mut l = tcs.clone();
                        l.shuffle(&mut rng);
                        for _ in 0..rng.gen_range(0..=2) {
                            let d = l[rng.gen_range(0..l.len())].clone();
                            let pos = rng.gen_range(0..=l.len());
                            l.insert(pos, d);
                        }
                        let schedule: Vec<usize> = (0..8).map(|_| rng.gen_range(0..8)).collect();
                        runs.push(RunPlan { cfg: c.clone(), input: l, schedule: Some(schedule) });
                    }
                }
                // the very first build once more, after everything else ran on this thread: state left
                // behind by other settings must not change the result
                let first = RunPlan { cfg: runs[0].cfg.clone(), input: runs[0].input.clone(), schedule: None };
                runs.push(first);
                mk(tcs, runs)
            }
            // C16: stage invariants on mixed inputs with and without repetition / class conversion
            "stages" => {
                let pools: [&'static [&'static str]; 6] = [PLAIN, PLAIN, DIGITS, CLUSTERS, META, CASED];
                let letters = letters_from(&mut rng, &pools, 4);
                let tcs = shaped_set(&mut rng, &letters, 6, 4);
                let cls = class_cfg(rng.gen_range(1..64));
                let runs = vec![
                    run(base.clone(), &tcs),
                    run(base.with("rep", true), &tcs),
                    run(cls.clone(), &tcs),
                    run(cls.with("rep", true), &tcs),
                    run(base.with("icase", true), &tcs),
                    run(base.with("nostart", true).with("noend", true), &tcs),
                ];
                mk(tcs, runs)
            }
            // S3 exhaustively over representatives: base letter, backslash, combining mark (Mn, Extend), emoji modifier
            // (Sk, Extend: stays in its cluster), ZWJ (Cf, Extend), line feed (Cc, Control), prepended letter (Lo,
            // Prepend: glues to what FOLLOWS), regional indicator (pairs up), a metacharacter
            "segments" => {
                let mut k = i;
                let mut len = 1;
                loop {
                    let block = SEG_CHARS.len().pow(len as u32);
                    if k < block {
                        break;
                    }
                    k -= block;
                    len += 1;
                }
                let mut w = String::new();
                for _ in 0..len {
                    w.push_str(SEG_CHARS[k % SEG_CHARS.len()]);
                    k /= SEG_CHARS.len();
                }
                let tcs = vec![w];
                let runs = if i % 7 == 0 { vec![run(base.clone(), &tcs), run(base.with("rep", true), &tcs)] } else { vec![run(base.clone(), &tcs)] };
                mk(tcs, runs)
            }
            // larger inputs: 34..64 test cases, tries of 130..400 states with many equal right languages (products of
            // heads and tails), given in shuffled, sorted and reverse-sorted order - size-dependent behaviour
            // (sort implementations, size guards, caches) only shows here
            "big" => {
                let pools: [&'static [&'static str]; 4] = [PLAIN, PLAIN, DIGITS, META];
                let mut letters = letters_from(&mut rng, &pools, 4);
                letters.extend(["a", "b"]);
                letters.sort();
                letters.dedup();
                let word = |rng: &mut StdRng, lo: usize, hi: usize| -> String {
                    (0..rng.gen_range(lo..=hi)).map(|_| letters[rng.gen_range(0..letters.len())]).collect()
                };
                let ntails = rng.gen_range(8..=14);
                let mut tails: Vec<String> = vec![];
                while tails.len() < ntails {
                    let mut w = word(&mut rng, 3, 7);
                    if rng.gen_bool(0.3) {
                        // repeats n and n+1 times with different continuations (the shape of the known widening)
                        let u = letters[rng.gen_range(0..letters.len())];
                        w = format!("{}{}{}", u.repeat(rng.gen_range(3..=4)), w, if rng.gen_bool(0.5) { "q" } else { "rs" });
                    }
                    if !tails.contains(&w) {
                        tails.push(w);
                    }
                }
                let heads: Vec<&str> = ["1", "2", "x", "yz"][..rng.gen_range(2..=4)].to_vec();
                let mut tcs: Vec<String> = vec![];
                for h in &heads {
                    for t in &tails {
                        tcs.push(format!("{}{}", h, t));
                    }
                }
                while tcs.len() < 34 {
                    let w = word(&mut rng, 2, 8);
                    if !tcs.contains(&w) {
                        tcs.push(w);
                    }
                }
                tcs.truncate(64);
                tcs.sort();
                tcs.dedup();
                let mut shuffled = tcs.clone();
                shuffled.shuffle(&mut rng);
                let mut reversed = tcs.clone();
                reversed.reverse();
                let mut by_len = tcs.clone();
                by_len.sort_by_key(|t| std::cmp::Reverse(t.len()));
                let rep = base.with("rep", true);
                let runs = vec![
                    RunPlan { cfg: base.clone(), input: shuffled.clone(), schedule: None },
                    RunPlan { cfg: base.clone(), input: reversed.clone(), schedule: None },
                    RunPlan { cfg: rep.clone(), input: shuffled, schedule: None },
                    RunPlan { cfg: rep.clone(), input: by_len, schedule: None },
                    RunPlan { cfg: rep, input: reversed, schedule: None },
                    RunPlan { cfg: base.with("noend", true), input: tcs.clone(), schedule: None },
                ];
                mk(tcs, runs)
            }
            // the self-check's second stage and the last-resort alternation (only reached when an anchor is disabled
            // and overlapping shorthand classes make the automaton's expressions ambiguous for a leftmost-first
            // search), combined with every other setting: about 8 % of these runs end in the plain alternation
            "fallbacks" => {
                let digits = ["0", "1", "7", "\u{663}"];
                let words = ["x", "y", "_", "\u{e9}", "\u{1D7D7}", "Q", "\u{1F4A9}", "-", " "];
                let mut letters: Vec<String> = vec![];
                for _ in 0..2 {
                    letters.push(digits[rng.gen_range(0..digits.len())].to_string());
                    letters.push(words[rng.gen_range(0..words.len())].to_string());
                }
                letters.sort();
                letters.dedup();
                let mut tcs: Vec<String> = vec![];
                let k = rng.gen_range(3..=5);
                let mut guard = 0;
                while tcs.len() < k && guard < 100 {
                    guard += 1;
                    let w: String = (0..rng.gen_range(1..=4)).map(|_| letters[rng.gen_range(0..letters.len())].clone()).collect();
                    if !tcs.contains(&w) {
                        tcs.push(w);
                    }
                }
                tcs.sort();
                let overlaps: [&[&str]; 6] = [&["digit", "word"], &["digit", "nonspace"], &["word", "nonspace"],
                                              &["digit", "word", "nonspace"], &["space", "nondigit"], &["digit", "nondigit"]];
                let mut cls = Cfg::default();
                for f in overlaps[rng.gen_range(0..overlaps.len())] {
                    cls = cls.with(f, true);
                }
                let open = if rng.gen_bool(0.5) { cls.with("noend", true) } else { cls.with("noend", true).with("nostart", true) };
                let mut runs = vec![run(open.clone(), &tcs)];
                for extra in ["rep", "icase", "verbose", "capture", "escape"] {
                    if rng.gen_bool(0.5) {
                        runs.push(run(open.with(extra, true), &tcs));
                    }
                }
                if rng.gen_bool(0.3) {
                    runs.push(run(open.with("escape", true).with("surr", true), &tcs));
                }
                if rng.gen_bool(0.3) {
                    runs.push(run(open.with("rep", true).with("verbose", true).with("capture", true), &tcs));
                }
                runs.push(run(cls.clone(), &tcs));
                mk(tcs, runs)
            }
            _ => None,
        }
    }
}

mod emit;
mod gen;
mod model;
mod parse;
mod proj;
mod sem;

use rayon::prelude::*;
use serde_json::{json, Value};
use std::collections::hash_map::DefaultHasher;
use std::collections::HashMap;
use std::hash::{Hash, Hasher};
use std::io::Write;
use std::sync::Mutex;

fn arg(args: &[String], name: &str) -> Option<String> {
    args.iter()
        .position(|a| a == name)
        .and_then(|i| args.get(i + 1).cloned())
}

struct Kept {
    lines: Vec<String>,
    index: Value,
    mult: u64,
    natoms: usize,
}

fn cmd_gen(args: &[String]) {
    let driver = arg(args, "--driver").expect("--driver");
    let tier = arg(args, "--tier").unwrap_or_else(|| "quick".into());
    let seed: u64 = arg(args, "--seed").and_then(|s| s.parse().ok()).unwrap_or(0);
    let out = arg(args, "--out").expect("--out");
    let shards: usize = arg(args, "--shards").and_then(|s| s.parse().ok()).unwrap_or(8);
    std::fs::create_dir_all(&out).unwrap();
    model::silence_panics();

    let d = gen::Driver::new(&driver, &tier, seed);
    let n = d.count();
    let kept: Mutex<(HashMap<u64, usize>, Vec<Kept>)> = Mutex::new((HashMap::new(), vec![]));
    let notes: Mutex<Vec<String>> = Mutex::new(vec![]);
    let builds = std::sync::atomic::AtomicU64::new(0);
    let groups_total = std::sync::atomic::AtomicU64::new(0);

    (0..n).into_par_iter().for_each(|i| {
        let plan = match d.plan(i) {
            Some(p) => p,
            None => return,
        };
        let runs: Vec<model::RunRaw> = plan
            .runs
            .iter()
            .map(|rp| model::run_build(&rp.input, &rp.cfg, rp.schedule.clone()))
            .collect();
        builds.fetch_add(runs.len() as u64, std::sync::atomic::Ordering::Relaxed);
        groups_total.fetch_add(1, std::sync::atomic::Ordering::Relaxed);
        let spec = emit::GroupSpec { tcs: plan.tcs.clone(), runs, cps: plan.cps, tag: plan.tag.clone() };
        let g = emit::emit_group(&spec);
        if !g.notes.is_empty() {
            let mut nn = notes.lock().unwrap();
            if nn.len() < 200 {
                for x in &g.notes {
                    nn.push(format!("{} [tcs={:?}]", x, plan.tcs));
                }
            }
        }
        let mut h = DefaultHasher::new();
        g.lines.hash(&mut h);
        let key = h.finish();
        let mut k = kept.lock().unwrap();
        if let Some(&idx) = k.0.get(&key) {
            k.1[idx].mult += 1;
        } else {
            let idx = k.1.len();
            k.0.insert(key, idx);
            k.1.push(Kept { lines: g.lines, index: g.index, mult: 1, natoms: g.natoms });
        }
    });

    let (_, mut groups) = kept.into_inner().unwrap();
    // deterministic order regardless of thread interleaving
    groups.sort_by(|a, b| a.lines.cmp(&b.lines));
    let mut traces: Vec<std::io::BufWriter<std::fs::File>> = (0..shards)
        .map(|k| {
            std::io::BufWriter::new(
                std::fs::File::create(format!("{}/trace_{}.ndjson", out, k)).unwrap(),
            )
        })
        .collect();
    let mut index = std::io::BufWriter::new(
        std::fs::File::create(format!("{}/index.ndjson", out)).unwrap(),
    );
    let mut events = 0u64;
    let mut max_atoms = 0;
    for (gi, g) in groups.iter().enumerate() {
        let gid = gi + 1;
        let k = gi % shards;
        for (li, line) in g.lines.iter().enumerate() {
            if li == 0 {
                // insert the group id into the group event
                let mut v: Value = serde_json::from_str(line).unwrap();
                v["g"] = json!(gid);
                v["mult"] = json!(g.mult);
                writeln!(traces[k], "{}", v).unwrap();
            } else {
                writeln!(traces[k], "{}", line).unwrap();
            }
            events += 1;
        }
        let mut iv = g.index.clone();
        iv["g"] = json!(gid);
        iv["mult"] = json!(g.mult);
        writeln!(index, "{}", iv).unwrap();
        max_atoms = max_atoms.max(g.natoms);
    }
    for t in traces.iter_mut() {
        t.flush().unwrap();
    }
    index.flush().unwrap();
    let stats = json!({
        "driver": driver, "tier": tier, "seed": seed,
        "plans": n, "groups": groups_total.into_inner(), "distinct_groups": groups.len(),
        "builds": builds.into_inner(), "events": events, "max_atoms": max_atoms,
        "notes": notes.into_inner().unwrap(),
    });
    std::fs::write(format!("{}/stats.json", out), stats.to_string()).unwrap();
    println!("{}", stats);
}

fn main() {
    let args: Vec<String> = std::env::args().collect();
    match args.get(1).map(|s| s.as_str()) {
        Some("gen") => cmd_gen(&args[2..]),
        _ => {
            eprintln!("usage: gv gen --driver NAME --tier quick|thorough --seed N --out DIR [--shards K]");
            std::process::exit(2);
        }
    }
}

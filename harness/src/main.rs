mod emit;
mod front;
mod front_wasm;
mod gen;
mod model;
mod parse;
mod proj;
mod sem;

use rayon::prelude::*;
use serde_json::{json, Value};
use std::collections::hash_map::DefaultHasher;
use std::collections::HashMap;
use std::hash::{Hash, Hasher};
use std::io::Write;
use std::sync::Mutex;

fn arg(args: &[String], name: &str) -> Option<String> {
    args.iter()
        .position(|a| a == name)
        .and_then(|i| args.get(i + 1).cloned())
}

struct Kept {
    lines: Vec<String>,
    index: Value,
    mult: u64,
    natoms: usize,
}

fn cmd_gen(args: &[String]) {
    let driver = arg(args, "--driver").expect("--driver");
    let tier = arg(args, "--tier").unwrap_or_else(|| "quick".into());
    let seed: u64 = arg(args, "--seed").and_then(|s| s.parse().ok()).unwrap_or(0);
    let out = arg(args, "--out").expect("--out");
    let shards: usize = arg(args, "--shards").and_then(|s| s.parse().ok()).unwrap_or(8);
    std::fs::create_dir_all(&out).unwrap();
    model::silence_panics();

    let d = gen::Driver::new(&driver, &tier, seed);
    let n = d.count();
    let kept: Mutex<(HashMap<u64, usize>, Vec<Kept>)> = Mutex::new((HashMap::new(), vec![]));
    let notes: Mutex<Vec<String>> = Mutex::new(vec![]);
    let builds = std::sync::atomic::AtomicU64::new(0);
    let groups_total = std::sync::atomic::AtomicU64::new(0);

    let progress = std::env::var("GV_PROGRESS").is_ok(); // development aid: which plan was running when the process died
    let only: Option<Vec<usize>> = std::env::var("GV_ONLY").ok().map(|s| s.split(',').filter_map(|x| x.parse().ok()).collect());
    (0..n).into_par_iter().for_each(|i| {
        if let Some(o) = &only {
            if !o.contains(&i) {
                return;
            }
        }
        let plan = match d.plan(i) {
            Some(p) => p,
            None => return,
        };
        if progress {
            eprintln!("S {} {:?}", i, plan.tcs);
        }
        let runs: Vec<model::RunRaw> = plan
            .runs
            .iter()
            .map(|rp| model::run_build(&rp.input, &rp.cfg, rp.schedule.clone()))
            .collect();
        builds.fetch_add(runs.len() as u64, std::sync::atomic::Ordering::Relaxed);
        groups_total.fetch_add(1, std::sync::atomic::Ordering::Relaxed);
        let spec = emit::GroupSpec { tcs: plan.tcs.clone(), runs, cps: plan.cps, tag: plan.tag.clone() };
        let g = emit::emit_group(&spec);
        if progress {
            eprintln!("E {}", i);
        }
        if !g.notes.is_empty() {
            let mut nn = notes.lock().unwrap();
            if nn.len() < 200 {
                for x in &g.notes {
                    nn.push(format!("{} [tcs={:?}]", x, plan.tcs));
                }
            }
        }
        let mut h = DefaultHasher::new();
        g.lines.hash(&mut h);
        let key = h.finish();
        let mut k = kept.lock().unwrap();
        if let Some(&idx) = k.0.get(&key) {
            k.1[idx].mult += 1;
        } else {
            let idx = k.1.len();
            k.0.insert(key, idx);
            k.1.push(Kept { lines: g.lines, index: g.index, mult: 1, natoms: g.natoms });
        }
    });

    let (_, mut groups) = kept.into_inner().unwrap();
    // deterministic order regardless of thread interleaving
    groups.sort_by(|a, b| a.lines.cmp(&b.lines));
    let mut traces: Vec<std::io::BufWriter<std::fs::File>> = (0..shards)
        .map(|k| {
            std::io::BufWriter::new(
                std::fs::File::create(format!("{}/trace_{}.ndjson", out, k)).unwrap(),
            )
        })
        .collect();
    let mut index = std::io::BufWriter::new(
        std::fs::File::create(format!("{}/index.ndjson", out)).unwrap(),
    );
    let mut events = 0u64;
    let mut max_atoms = 0;
    for (gi, g) in groups.iter().enumerate() {
        let gid = gi + 1;
        let k = gi % shards;
        for (li, line) in g.lines.iter().enumerate() {
            if li == 0 {
                // insert the group id into the group event
                let mut v: Value = serde_json::from_str(line).unwrap();
                v["g"] = json!(gid);
                v["mult"] = json!(g.mult);
                writeln!(traces[k], "{}", v).unwrap();
            } else {
                writeln!(traces[k], "{}", line).unwrap();
            }
            events += 1;
        }
        let mut iv = g.index.clone();
        iv["g"] = json!(gid);
        iv["mult"] = json!(g.mult);
        writeln!(index, "{}", iv).unwrap();
        max_atoms = max_atoms.max(g.natoms);
    }
    for t in traces.iter_mut() {
        t.flush().unwrap();
    }
    index.flush().unwrap();
    let stats = json!({
        "driver": driver, "tier": tier, "seed": seed,
        "plans": n, "groups": groups_total.into_inner(), "distinct_groups": groups.len(),
        "builds": builds.into_inner(), "events": events, "max_atoms": max_atoms,
        "notes": notes.into_inner().unwrap(),
    });
    std::fs::write(format!("{}/stats.json", out), stats.to_string()).unwrap();
    println!("{}", stats);
}

fn write_events(out: &str, shards: usize, evs: Vec<(Value, Value)>, stats: Value) {
    std::fs::create_dir_all(out).unwrap();
    let mut traces: Vec<std::io::BufWriter<std::fs::File>> = (0..shards)
        .map(|k| std::io::BufWriter::new(std::fs::File::create(format!("{}/trace_{}.ndjson", out, k)).unwrap()))
        .collect();
    let mut index = std::io::BufWriter::new(std::fs::File::create(format!("{}/index.ndjson", out)).unwrap());
    for (i, (ev, idx)) in evs.iter().enumerate() {
        writeln!(traces[i % shards], "{}", ev).unwrap();
        writeln!(index, "{}", idx).unwrap();
    }
    for t in traces.iter_mut() {
        t.flush().unwrap();
    }
    index.flush().unwrap();
    std::fs::write(format!("{}/stats.json", out), stats.to_string()).unwrap();
    println!("{}", stats);
}

fn cmd_gen_front(args: &[String]) {
    use rand::{Rng, SeedableRng};
    let kind = arg(args, "--kind").expect("--kind");
    let tier = arg(args, "--tier").unwrap_or_else(|| "quick".into());
    let thorough = tier == "thorough";
    let seed: u64 = arg(args, "--seed").and_then(|s| s.parse().ok()).unwrap_or(0);
    let out = arg(args, "--out").expect("--out");
    let shards: usize = arg(args, "--shards").and_then(|s| s.parse().ok()).unwrap_or(8);
    let tmp = format!("{}/tmp", out);
    std::fs::create_dir_all(&tmp).unwrap();
    model::silence_panics();
    let self_exe = std::env::current_exe().unwrap().to_string_lossy().to_string();
    let builds = std::sync::atomic::AtomicU64::new(0);
    let rng_for = |i: usize| rand::rngs::StdRng::seed_from_u64(seed.wrapping_mul(0x9E3779B97F4A7C15).wrapping_add(i as u64 + 17));
    let mut evs: Vec<(Value, Value)> = vec![];
    match kind.as_str() {
        "hist" => {
            let n = if thorough { 16000 } else { 4000 };
            evs = (0..n)
                .into_par_iter()
                .map(|i| {
                    let mut rng = rng_for(i);
                    let (sets, ops) = if i % 3 == 0 {
                        front::structured_history(&mut rng)
                    } else {
                        front::random_history(&mut rng, 12, true)
                    };
                    builds.fetch_add(ops.len() as u64, std::sync::atomic::Ordering::Relaxed);
                    // every 16th history takes its reference results from fresh processes
                    let pr = if i % 16 == 7 { Some((self_exe.as_str(), tmp.as_str())) } else { None };
                    front::run_rust_history_ref(i + 1, &sets, &ops, pr)
                })
                .collect();
            // threads and fresh processes
            let m = if thorough { 40 } else { 8 };
            for k in 0..m {
                let mut rng = rng_for(1_000_000 + k);
                let letters: Vec<&str> = vec!["p", "q", "1", "a", "\u{663}", "b"];
                let mut list = gen::shaped_set(&mut rng, &letters, 6, 3);
                if k == 0 {
                    list = vec!["p1".into(), "pa".into(), "q\u{663}".into(), "qa".into()];
                }
                let mut cfg = model::Cfg::from_bits(rng.gen::<u32>() & 0x3BFF);
                if k == 0 {
                    cfg = model::Cfg::default().with("digit", true);
                }
                evs.push(front::run_threads(n + 1 + 2 * k, &list, &cfg, 16, if thorough { 64 } else { 16 }));
                evs.push(front::run_procs(n + 2 + 2 * k, &list, &cfg, if thorough { 24 } else { 12 }, &self_exe, &tmp));
                builds.fetch_add(16 * 16 + 12, std::sync::atomic::Ordering::Relaxed);
            }
        }
        "cli" => {
            let bin = arg(args, "--cli-bin").expect("--cli-bin");
            let n = if thorough { 20000 + 65536 } else { 1600 };
            evs = (0..n)
                .into_par_iter()
                .map(|i| {
                    let mut rng = rng_for(i);
                    // the last 65536 thorough scenarios enumerate every subset of the 16 flags
                    let i = if thorough && i >= 20000 { 200_000 + (i - 20000) } else { i };
                    let sc = front::random_cli_scenario(&mut rng, i, thorough);
                    builds.fetch_add(1, std::sync::atomic::Ordering::Relaxed);
                    front::run_cli(if i >= 200_000 { i - 200_000 + 20001 } else { i + 1 }, &sc, &bin, &tmp)
                })
                .collect();
        }
        "wasm" => {
            let n = if thorough { 16000 } else { 4000 };
            evs = (0..n)
                .into_par_iter()
                .map(|i| {
                    let plan = front_wasm::wasm_plan(&mut rng_for(i), i + 1);
                    builds.fetch_add(3, std::sync::atomic::Ordering::Relaxed);
                    front_wasm::run_wasm_history(&plan)
                })
                .collect();
        }
        "large" => {
            let mut rng = rng_for(0);
            let scen = front::large_scenarios(&mut rng, thorough);
            evs = scen
                .par_iter()
                .enumerate()
                .map(|(i, (what, list, cfg))| {
                    builds.fetch_add(1, std::sync::atomic::Ordering::Relaxed);
                    front::run_large(i + 1, what, list, cfg, &self_exe, &tmp, if thorough { 240 } else { 90 })
                })
                .collect();
        }
        "escsweep" => {
            let block = 2048;
            let nblocks = (gen::N_SCALARS + block - 1) / block;
            evs = (0..2 * nblocks)
                .into_par_iter()
                .map(|k| {
                    let b = k / 2;
                    let (first, last) = (b * block, ((b + 1) * block).min(gen::N_SCALARS));
                    builds.fetch_add((last - first) as u64, std::sync::atomic::Ordering::Relaxed);
                    front::esc_sweep_block(k + 1, first, last, k % 2 == 1)
                })
                .collect();
        }
        "py-plan" => {
            let n = if thorough { 12000 } else { 3000 };
            let plans: Vec<Value> = (0..n).map(|i| front::py_plan(&mut rng_for(i), i + 1)).collect();
            std::fs::create_dir_all(&out).unwrap();
            std::fs::write(format!("{}/py_scen.json", out), Value::Array(plans).to_string()).unwrap();
            let _ = std::fs::remove_dir_all(&tmp);
            println!("{{\"plans\": {}}}", n);
            return;
        }
        "py-merge" => {
            let plans: Value = serde_json::from_str(&std::fs::read_to_string(format!("{}/py_scen.json", out)).unwrap()).unwrap();
            let results: Value = serde_json::from_str(&std::fs::read_to_string(format!("{}/py_res.json", out)).unwrap()).unwrap();
            let (pa, ra) = (plans.as_array().unwrap(), results.as_array().unwrap());
            assert_eq!(pa.len(), ra.len());
            evs = pa.par_iter().zip(ra.par_iter()).map(|(p, r)| front::py_merge(p, r)).collect();
            builds.fetch_add(evs.len() as u64 * 3, std::sync::atomic::Ordering::Relaxed);
        }
        "replay" => {
            // re-execute recorded scenarios (index entries, one JSON object per line)
            let plan = arg(args, "--plan").expect("--plan");
            let bin = arg(args, "--cli-bin").unwrap_or_default();
            let strs = |x: &Value| -> Vec<String> {
                x.as_array().map(|a| a.iter().map(|s| s.as_str().unwrap_or("").to_string()).collect()).unwrap_or_default()
            };
            for (i, line) in std::fs::read_to_string(&plan).unwrap().lines().enumerate() {
                let v: Value = serde_json::from_str(line).unwrap();
                let h = i + 1;
                match v["kind"].as_str().unwrap_or("") {
                    "hist-rust" => {
                        let sets: Vec<Vec<String>> = v["sets"].as_array().unwrap().iter().map(|x| strs(x)).collect();
                        let mut ops = vec![];
                        let mut set_of_list = |l: &Vec<String>| -> usize {
                            let mut a = l.clone();
                            a.sort();
                            a.dedup();
                            sets.iter().position(|s| { let mut b = s.clone(); b.sort(); b.dedup(); b == a }).map(|p| p + 1).unwrap_or(1)
                        };
                        for o in v["ops"].as_array().unwrap() {
                            let id = o["o"].as_u64().unwrap_or(0) as usize;
                            match o["op"].as_str().unwrap() {
                                "new" => { let list = strs(&o["list"]); let set = set_of_list(&list); ops.push(front::Op::New { o: id, set, list, from_file: o["from_file"].as_bool().unwrap_or(false) }) }
                                "set" => ops.push(front::Op::Set { o: id, name: o["name"].as_str().unwrap().to_string(), arg: o["arg"].as_i64().unwrap_or(0) }),
                                "clone" => ops.push(front::Op::Clone { o: id, ret: o["ret"].as_u64().unwrap() as usize }),
                                _ => ops.push(front::Op::Build { o: id }),
                            }
                        }
                        evs.push(front::run_rust_history(h, &sets, &ops));
                    }
                    "escsweep" => evs.push(front::esc_sweep_block(h, v["first"].as_u64().unwrap() as usize,
                                                                  v["last"].as_u64().unwrap() as usize, v["surr"].as_bool().unwrap_or(false))),
                    "hist-wasm" => evs.push(front_wasm::run_wasm_history(&v["plan"])),
                    "hist-py" => {
                        // executed by CPython beforehand (lib/vlib.py): the results travel with the plan
                        evs.push(front::py_merge(&v["plan"], &v["results"]));
                    }
                    "threads" => evs.push(front::run_threads(h, &strs(&v["list"]), &model::Cfg::from_json(&v["cfg"]), 16, 32)),
                    "procs" => evs.push(front::run_procs(h, &strs(&v["list"]), &model::Cfg::from_json(&v["cfg"]), 16, &self_exe, &tmp)),
                    "cli" => {
                        let flags: Vec<&'static str> = strs(&v["flags"]).iter()
                            .filter_map(|f| front::CLI_FLAGS.iter().find(|x| **x == f.as_str()).copied()).collect();
                        let channel = ["args", "stdin", "file", "filestdin"].iter().find(|c| **c == v["channel"].as_str().unwrap_or("args")).copied().unwrap();
                        let sc = front::CliScenario {
                            flags, minrep: v["minrep"].as_i64().unwrap_or(1), minsub: v["minsub"].as_i64().unwrap_or(1), channel,
                            args: strs(&v["args"]),
                            content: v["content_bytes"].as_array().map(|a| a.iter().map(|b| b.as_u64().unwrap_or(0) as u8).collect()).unwrap_or_default(),
                            readable: v["readable"].as_bool().unwrap_or(true),
                        };
                        evs.push(front::run_cli(h, &sc, &bin, &tmp));
                    }
                    other => panic!("cannot replay kind {}", other),
                }
            }
        }
        other => panic!("unknown front kind {}", other),
    }
    let _ = std::fs::remove_dir_all(&tmp);
    let n = evs.len();
    write_events(&out, shards, evs, json!({"driver": kind, "tier": tier, "seed": seed, "plans": n, "groups": n,
        "distinct_groups": n, "builds": builds.into_inner(), "events": n, "max_atoms": 0, "notes": []}));
}

fn cmd_build_one(args: &[String]) {
    let v: Value = serde_json::from_str(&std::fs::read_to_string(&args[0]).unwrap()).unwrap();
    let list: Vec<String> = v["list"].as_array().unwrap().iter().map(|s| s.as_str().unwrap().to_string()).collect();
    let cfg = model::Cfg::from_json(&v["cfg"]);
    model::silence_panics();
    match model::plain_build(&list, &cfg) {
        Ok(s) => print!("{}", s),
        Err(e) => print!("PANIC {}", e),
    }
}

fn main() {
    let args: Vec<String> = std::env::args().collect();
    match args.get(1).map(|s| s.as_str()) {
        Some("gen") => cmd_gen(&args[2..]),
        Some("gen-front") => cmd_gen_front(&args[2..]),
        Some("build-one") => cmd_build_one(&args[2..]),
        _ => {
            eprintln!("usage: gv gen --driver NAME --tier quick|thorough --seed N --out DIR [--shards K]");
            std::process::exit(2);
        }
    }
}

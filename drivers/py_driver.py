#!/usr/bin/env python3
"""CPython side of C14: executes builder histories on the real `grex` extension module (built from
/repo with --features python) and records what happened. Usage: py_driver.py scenarios.json results.json"""
import sys, json, re

import grex

METHODS = {
    "digit": "with_conversion_of_digits", "nondigit": "with_conversion_of_non_digits",
    "space": "with_conversion_of_whitespace", "nonspace": "with_conversion_of_non_whitespace",
    "word": "with_conversion_of_words", "nonword": "with_conversion_of_non_words",
    "rep": "with_conversion_of_repetitions", "icase": "with_case_insensitive_matching",
    "capture": "with_capturing_groups", "verbose": "with_verbose_mode",
    "nostart": "without_start_anchor", "noend": "without_end_anchor", "noanchors": "without_anchors",
    "escape": "with_escaping_of_non_ascii_chars", "minrep": "with_minimum_repetitions",
    "minsub": "with_minimum_substring_length",
}


def run(h):
    objs = {}
    lists = {}
    res = []
    for op in h["ops"]:
        r = {"ok": True, "msg": ""}
        try:
            if op["op"] == "new":
                o = grex.RegExpBuilder.from_test_cases(op["list"]) if op.get("ctor") == "classmethod" \
                    else grex.RegExpBuilder(op["list"])
                objs[op["o"]] = o
                lists[op["o"]] = op["list"]
            elif op["op"] == "set":
                obj = objs[op["o"]]
                m = getattr(obj, METHODS[op["name"]])
                if op["name"] == "escape":
                    ret = m(bool(op["arg"]))
                elif op["name"] in ("minrep", "minsub"):
                    ret = m(op["arg"])
                else:
                    ret = m()
                r["alias"] = ret is obj
                if ret is not obj:
                    objs[op["ret"]] = ret
                    lists[op["ret"]] = lists[op["o"]]
            elif op["op"] == "build":
                out = objs[op["o"]].build()
                r["out"] = out
                try:
                    c = re.compile(out)
                    r["compiles"] = True
                    r["failed"] = [t for t in lists[op["o"]] if c.fullmatch(t) is None]
                    r["fullmatch"] = not r["failed"]
                except Exception as e:  # noqa
                    r["compiles"] = False
                    r["fullmatch"] = False
                    r["msg"] = "re.compile: %s" % e
        except ValueError as e:
            r["ok"] = False
            r["msg"] = str(e)
        except BaseException as e:  # a Rust panic surfaces as pyo3_runtime.PanicException
            r["ok"] = False
            r["msg"] = "EXC %s: %s" % (type(e).__name__, e)
        res.append(r)
    return res


def main():
    scen = json.load(open(sys.argv[1]))
    out = [{"h": h["h"], "res": run(h)} for h in scen]
    json.dump(out, open(sys.argv[2], "w"))


if __name__ == "__main__":
    main()

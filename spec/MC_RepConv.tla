----------------------------- MODULE MC_RepConv -------------------------------
(***************************************************************************)
(* Bounded model of S5 (repetition conversion, Algo!RepConvert) on every   *)
(* word over {a, b} of length <= MaxLen and every pair of thresholds in    *)
(* 1..MaxThr:                                                              *)
(*   ClusterLang   the converted cluster denotes exactly the word  (C05)   *)
(*   Nested        every nested re-factoring denotes its unit              *)
(*   Thresholds    every counted symbol clears both thresholds     (C13)   *)
(*   Monotone      raising a threshold never creates a counted symbol that *)
(*                 was not there before ... is NOT claimed (the greedy     *)
(*                 choice may change); only the C13 form above is          *)
(* Each behaviour prints the predicted pattern for the single test case;   *)
(* the harness compares it with the real library (Level-2 drift of S5) and *)
(* validates the real run's trace.                                         *)
(***************************************************************************)
EXTENDS Algo, Builder, TLC, Json

CONSTANTS MaxLen, MaxThr

RECURSIVE WordsOfLen(_)
WordsOfLen(n) == IF n = 0 THEN {<<>>} ELSE {w \o <<a>> : w \in WordsOfLen(n - 1), a \in 1 .. 2}
Words == UNION {WordsOfLen(n) : n \in 1 .. MaxLen}

VARIABLES w, c, conv
vars == <<w, c, conv>>
Init == /\ w \in Words /\ c \in {[minrep |-> r, minsub |-> s] : r, s \in 1 .. MaxThr} /\ conv = <<>>
Next == conv = <<>> /\ conv' = RepConvert(PlainCluster(w), c) /\ UNCHANGED <<w, c>>
Spec == Init /\ [][Next]_vars

Cfg == [DefaultCfg EXCEPT !.rep = TRUE, !.minrep = c.minrep, !.minsub = c.minsub]
ClusterLang == conv # <<>> => SymsLang(conv) = {w}
Nested == conv # <<>> => \A i \in DOMAIN conv : NestOk(conv[i])
Thresholds == conv # <<>> => ClusterThresholdsOk(conv, Cfg)
WordStr(x) == Join([i \in DOMAIN x |-> Letters[x[i]]])
Replay == conv # <<>> =>
   PrintT(ToJson([replay |-> "repconv", w |-> WordStr(w), minrep |-> c.minrep, minsub |-> c.minsub,
                  out |-> "^" \o PrintX(XLit(conv), Cfg) \o "$"]))
=============================================================================

SPECIFICATION Spec
INVARIANT Counters
POSTCONDITION Accepted
CHECK_DEADLOCK FALSE

SPECIFICATION Spec
CONSTANT LIMIT = 20000
INVARIANT Counters
POSTCONDITION Accepted
CHECK_DEADLOCK FALSE

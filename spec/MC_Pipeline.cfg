SPECIFICATION Spec
CONSTANTS MaxLen = 3
          MaxSize = 2
          NAtoms = 2
          DevFinals = TRUE
          Sampled = FALSE
          WithRep = TRUE
INVARIANTS SortInv ClusterInv TrieInv MinInv ElimInv FinalInv AnchorInv SymbolicInv Replay
CHECK_DEADLOCK FALSE

SPECIFICATION Spec
CONSTANTS MaxLen = 3
          MaxSize = 2
          NAtoms = 2
          DevFinals = TRUE
INVARIANTS SortInv TrieInv MinInv ElimInv FinalInv AnchorInv SymbolicInv Replay
CHECK_DEADLOCK FALSE

----------------------------- MODULE MC_Pipeline -----------------------------
(***************************************************************************)
(* Bounded model of the whole pipeline (Level 2, Algo.tla) for default     *)
(* conversions and the four anchor settings: every non-empty set of at     *)
(* most MaxSize words of length <= MaxLen over NAtoms characters is run    *)
(* through sort -> trie -> Hopcroft -> recreate -> elimination ->          *)
(* self-check -> print, one action per stage, and the Level-1              *)
(* post-conditions / listed properties are invariants of every state.      *)
(*                                                                         *)
(*   DevFinals = FALSE  the design: all invariants hold strictly           *)
(*   DevFinals = TRUE   the code as built (KNOWN_FINDINGS D1): the         *)
(*                      minimised automaton may lose exactly the empty     *)
(*                      word; the invariants then hold modulo that word    *)
(* Every complete behaviour prints one REPLAY line (input, settings,       *)
(* predicted output) which the harness executes on the real library.       *)
(***************************************************************************)
EXTENDS Algo, Builder, TLC, Json, Randomization

CONSTANTS MaxLen, MaxSize, NAtoms, DevFinals,
          Sampled     \* TRUE: inputs are drawn at random (tlc -simulate) instead of enumerated

Dev == [widen |-> TRUE, finals |-> DevFinals]

RECURSIVE WordsOfLen(_)
WordsOfLen(n) == IF n = 0 THEN {<<>>} ELSE {w \o <<a>> : w \in WordsOfLen(n - 1), a \in 1 .. NAtoms}
Words == UNION {WordsOfLen(n) : n \in 0 .. MaxLen}
Inputs == {T \in SUBSET Words : T # {} /\ Cardinality(T) <= MaxSize}

CONSTANT WithRep    \* TRUE: also explore repetition conversion (S5) - the known widening then excuses exactness
Cfgs == {[DefaultCfg EXCEPT !.nostart = a, !.noend = b, !.rep = r] : a, b \in BOOLEAN, r \in (IF WithRep THEN BOOLEAN ELSE {FALSE})}

VARIABLES pc, T, cfg, tcs, cls, trie, min, e1, final, out,
          ord, A, B, n      \* state elimination: DFS order, equation system, next state to eliminate
vars == <<pc, T, cfg, tcs, cls, trie, min, e1, final, out, ord, A, B, n>>
elim == <<ord, A, B, n>>

NoG == [n |-> 1, es |-> <<>>, fin |-> {}, alpha |-> {}, init |-> 0]
Init == /\ pc = "input" /\ T = {} /\ cfg = DefaultCfg /\ tcs = <<>> /\ cls = <<>>
        /\ trie = NoG /\ min = NoG /\ e1 = XNone /\ final = XNone /\ out = ""
        /\ ord = <<>> /\ A = <<>> /\ B = <<>> /\ n = 0

DoChoose == /\ pc = "input"
          /\ (IF Sampled
              THEN \E c \in Cfgs : (cfg' = c /\ T' = RandomSubset(RandomElement(1 .. MaxSize), Words))
              ELSE \E t \in Inputs, c \in Cfgs : (T' = t /\ cfg' = c))
          /\ pc' = "sort" /\ UNCHANGED <<tcs, cls, trie, min, e1, final, out, elim>>
DoSort == /\ pc = "sort" /\ tcs' = SortTcs(T)
          /\ pc' = "clusters" /\ UNCHANGED <<T, cfg, cls, trie, min, e1, final, out, elim>>
(* S3 + S5: one symbol per character, then the greedy repetition conversion if requested *)
DoClusters == /\ pc = "clusters"
              /\ cls' = [i \in DOMAIN tcs |-> IF cfg.rep THEN RepConvert(PlainCluster(tcs[i]), cfg) ELSE PlainCluster(tcs[i])]
              /\ pc' = "trie" /\ UNCHANGED <<T, cfg, tcs, trie, min, e1, final, out, elim>>
DoTrie == /\ pc = "trie"
          /\ trie' = BuildTrie(cls, Dev) @@ [init |-> 0]
          /\ pc' = "min" /\ UNCHANGED <<T, cfg, tcs, cls, min, e1, final, out, elim>>
DoMin == /\ pc = "min" /\ min' = Minimize(trie, Dev)
         /\ pc' = "elim-init" /\ UNCHANGED <<T, cfg, tcs, cls, trie, e1, final, out, elim>>
(* S9 one action per eliminated state *)
DoElimInit == /\ pc = "elim-init"
              /\ ord' = DfsOrder(min, min.init)
              /\ A' = InitA(min, ord') /\ B' = InitB(min, ord') /\ n' = Len(ord')
              /\ pc' = "elim" /\ UNCHANGED <<T, cfg, tcs, cls, trie, min, e1, final, out>>
DoElimStep == /\ pc = "elim" /\ n > 0
              /\ LET r == ElimOne(A, B, n) IN A' = r.A /\ B' = r.B
              /\ n' = n - 1
              /\ UNCHANGED <<pc, T, cfg, tcs, cls, trie, min, e1, final, out, ord>>
DoEliminate == /\ pc = "elim" /\ n = 0
               /\ e1' = (IF XIsNone(B[1]) THEN XLit(<<>>) ELSE B[1])
               /\ pc' = "check" /\ UNCHANGED <<T, cfg, tcs, cls, trie, min, final, out, elim>>
DoCheck == /\ pc = "check"
         /\ final' = (IF ~cfg.noend \/ WholeFound(e1, tcs) THEN e1
                      ELSE LET e2 == ToExpr(trie, 0) IN
                           IF WholeFound(e2, tcs) THEN e2 ELSE FallbackAltCl(tcs, cls))
         /\ pc' = "print" /\ UNCHANGED <<T, cfg, tcs, cls, trie, min, e1, out, elim>>
DoPrint == /\ pc = "print" /\ out' = PrintRegex(final, cfg)
         /\ pc' = "done" /\ UNCHANGED <<T, cfg, tcs, cls, trie, min, e1, final, elim>>
Next == DoChoose \/ DoSort \/ DoClusters \/ DoTrie \/ DoMin \/ DoElimInit \/ DoElimStep \/ DoEliminate \/ DoCheck \/ DoPrint
Spec == Init /\ [][Next]_vars
(* C07 (totality) at the model level: under weak fairness every run of the pipeline reaches "done"; the    *)
(* stages only move forward and every elimination step consumes one state (the variant of the only loop  *)
(* that is an action of this model; the loops inside one stage terminate iff TLC evaluates the operator). *)
FairSpec == Spec /\ WF_vars(Next)
Terminates == <>(pc = "done")
StageRank == [s \in {"input", "sort", "clusters", "trie", "min", "elim-init", "elim", "check", "print", "done"} |->
                CASE s = "input" -> 0 [] s = "sort" -> 1 [] s = "clusters" -> 2 [] s = "trie" -> 3 [] s = "min" -> 4
                  [] s = "elim-init" -> 5 [] s = "elim" -> 6 [] s = "check" -> 7 [] s = "print" -> 8 [] s = "done" -> 9]
Progress == [][\/ StageRank[pc'] = StageRank[pc] + 1
               \/ (pc = "elim" /\ pc' = "elim" /\ n' = n - 1 /\ n > 0)]_vars
(* results of earlier stages are never rewritten by later ones (hooks report them once) *)
WriteOnce == [][/\ (StageRank[pc] > 0 => (T' = T /\ cfg' = cfg))
                /\ (StageRank[pc] > 1 => tcs' = tcs) /\ (StageRank[pc] > 2 => cls' = cls)
                /\ (StageRank[pc] > 3 => trie' = trie) /\ (StageRank[pc] > 4 => min' = min)
                /\ (StageRank[pc] > 6 => e1' = e1) /\ (StageRank[pc] > 7 => final' = final)]_vars

(***************************************************************************)
(* invariants                                                              *)
(***************************************************************************)
After(stages) == pc \in stages
ModEps(L) == IF DevFinals THEN L \ {<<>>} ELSE L
TrieG == AsGraph(trie, 0)
MinG == AsGraph(min, min.init)

SortInv == After({"clusters", "trie", "min", "elim-init", "elim", "check", "print", "done"}) =>
             /\ ToSet(tcs) = T /\ Len(tcs) = Cardinality(T)
             /\ \A i \in 1 .. Len(tcs) - 1 : TcLess(tcs[i], tcs[i + 1])
(* the recorded widening defect (D2): an edge label became a range *)
Widened == \E i \in DOMAIN trie.es : trie.es[i].sym.lo # trie.es[i].sym.hi
ClusterInv == After({"trie", "min", "elim-init", "elim", "check", "print", "done"}) =>
             /\ Len(cls) = Len(tcs)
             /\ \A i \in DOMAIN cls : SymsLang(cls[i]) = {tcs[i]} /\ ClusterThresholdsOk(cls[i], cfg)
                                        /\ \A j \in DOMAIN cls[i] : NestOk(cls[i][j])
TrieInv == After({"min", "elim-init", "elim", "check", "print", "done"}) =>
             /\ Acyclic(TrieG) /\ T \subseteq GraphLang(TrieG)
             /\ (Widened \/ GraphLang(TrieG) = T)
             /\ (Widened => cfg.rep)
MinInv == After({"elim-init", "elim", "check", "print", "done"}) =>
             /\ Acyclic(MinG)
             /\ ModEps(GraphLang(MinG)) = ModEps(GraphLang(TrieG))
             /\ (DevFinals \/ GraphLang(MinG) = GraphLang(TrieG))
             /\ (cfg.rep \/ (DeterministicSym(MinG) /\ MinimalSym(MinG) /\ MinimalSymByLang(MinG)))
(* Arden's system stays equivalent while states are eliminated: for every surviving row i <= n the    *)
(* right language of state ord[i] is  B[i] + sum over j <= n of A[i][j] . RightLang(ord[j])          *)
ElimStepInv == pc = "elim" =>
  \A i \in 1 .. n :
     RightLang(MinG, ord[i]) =
        XLang(B[i]) \cup UNION {ConcatL(XLang(A[i][j]), RightLang(MinG, ord[j])) : j \in 1 .. n}
ElimInv == After({"check", "print", "done"}) =>
             ModEps(LangOf(XToLang(e1))) = ModEps(GraphLang(MinG))
FinalInv == After({"print", "done"}) =>
             \* C02 / C16 / C05: exactly the test cases - or, where an edge was widened (D2), the trie's language
             \* (the last-resort alternation of the self-check is exact even then)
             /\ \/ ModEps(LangOf(XToLang(final))) = ModEps(T)
                \/ (Widened /\ ModEps(LangOf(XToLang(final))) = ModEps(GraphLang(TrieG)))
             /\ \A i \in DOMAIN tcs : tcs[i] = <<>> \/ tcs[i] \in LangOf(XToLang(final)) \* C01
             /\ (DevFinals \/ LangOf(XToLang(final)) = T \/ (Widened /\ LangOf(XToLang(final)) = GraphLang(TrieG)))
(* C08: with an anchor disabled a search returns the whole test case (leftmost-first semantics) *)
FullAst == [t |-> "cat", xs |-> (IF cfg.nostart THEN <<>> ELSE <<[t |-> "bol"]>>)
                                \o <<XToLang(final)>>
                                \o (IF cfg.noend THEN <<>> ELSE <<[t |-> "eol"]>>)]
AnchorInv == After({"print", "done"}) =>
             ((cfg.nostart \/ cfg.noend) =>
                \A i \in DOMAIN tcs : (DevFinals /\ tcs[i] = <<>>) \/ Find(FullAst, tcs[i]) = <<0, Len(tcs[i])>>)
(* the symbolic semantics agrees with the explicit-set semantics on everything the model builds *)
SymbolicInv == After({"print", "done"}) =>
             /\ EqD(DescAst(XToLang(final)), DescGraph(TrieG), NAtoms, FALSE) = (LangOf(XToLang(final)) = GraphLang(TrieG))
             /\ EqD(DescGraph(MinG), DescGraph(TrieG), NAtoms, TRUE)
             /\ \A i \in DOMAIN tcs : Accepts(DescAst(XToLang(final)), tcs[i]) = (tcs[i] \in LangOf(XToLang(final)))

WordStr(w) == Join([i \in DOMAIN w |-> Letters[w[i]]])
Replay == pc = "done" =>
            PrintT(ToJson([replay |-> "pipeline", tcs |-> [i \in DOMAIN tcs |-> WordStr(tcs[i])],
                           nostart |-> cfg.nostart, noend |-> cfg.noend, rep |-> cfg.rep, out |-> out]))
=============================================================================

-------------------------------- MODULE Front --------------------------------
(***************************************************************************)
(* The front ends as functions of the library (C12, C14, C17):             *)
(*   - the command-line tool: flag set -> setter calls, input channels,    *)
(*     str::lines(), exit codes                      (src/main.rs)         *)
(*   - the Python class: \u{h..} -> \uXXXX / \UXXXXXXXX  (src/python.rs)   *)
(* Strings are sequences of code points.                                   *)
(***************************************************************************)
EXTENDS Builder

(***************************************************************************)
(* CLI: the settings a set of flags stands for.  flags is a set of long    *)
(* option names without the leading dashes.                                *)
(***************************************************************************)
CliFlags == {"digits", "non-digits", "spaces", "non-spaces", "words", "non-words", "escape",
             "with-surrogates", "repetitions", "no-start-anchor", "no-end-anchor", "no-anchors",
             "verbose", "colorize", "ignore-case", "capture-groups"}

(* clap rejects --with-surrogates without --escape and zero thresholds (usage error, exit 2) *)
CliUsageError(flags, minrep, minsub) ==
  \/ ("with-surrogates" \in flags /\ "escape" \notin flags)
  \/ minrep < 1 \/ minsub < 1

CliMap(flags, minrep, minsub) ==
  [digit    |-> "digits" \in flags,
   nondigit |-> "non-digits" \in flags,
   space    |-> "spaces" \in flags,
   nonspace |-> "non-spaces" \in flags,
   word     |-> "words" \in flags,
   nonword  |-> "non-words" \in flags,
   rep      |-> "repetitions" \in flags,
   icase    |-> "ignore-case" \in flags,
   capture  |-> "capture-groups" \in flags,
   escape   |-> "escape" \in flags,
   surr     |-> "escape" \in flags /\ "with-surrogates" \in flags,
   verbose  |-> "verbose" \in flags,
   nostart  |-> "no-start-anchor" \in flags \/ "no-anchors" \in flags,
   noend    |-> "no-end-anchor" \in flags \/ "no-anchors" \in flags,
   color    |-> "colorize" \in flags,
   minrep   |-> minrep,
   minsub   |-> minsub]

(***************************************************************************)
(* str::lines(): split at LF; a CR directly before that LF belongs to the  *)
(* line ending; a final line without LF counts; nothing follows a final LF.*)
(***************************************************************************)
RECURSIVE LinesFrom(_, _, _)
LinesFrom(s, i, cur) ==
  IF i > Len(s) THEN (IF cur = <<>> THEN <<>> ELSE <<cur>>)
  ELSE IF s[i] = 10
       THEN LET line == IF cur # <<>> /\ cur[Len(cur)] = 13 THEN SubSeq(cur, 1, Len(cur) - 1) ELSE cur
            IN <<line>> \o LinesFrom(s, i + 1, <<>>)
       ELSE LinesFrom(s, i + 1, Append(cur, s[i]))
Lines(s) == LinesFrom(s, 1, <<>>)

(* what the tool must do for a scenario: [kind |-> "ok", cfg, tcs] or [kind |-> "error"] *)
CliExpect(flags, minrep, minsub, channel, args, content, readable, utf8) ==
  IF CliUsageError(flags, minrep, minsub) THEN [kind |-> "usage"]
  ELSE IF channel = "args"
       THEN [kind |-> "ok", cfg |-> CliMap(flags, minrep, minsub), tcs |-> args]
       ELSE IF ~readable \/ ~utf8 THEN [kind |-> "error"]
            ELSE LET ls == Lines(content) IN
                 IF ls = <<>> THEN [kind |-> "error"]
                 ELSE [kind |-> "ok", cfg |-> CliMap(flags, minrep, minsub), tcs |-> ls]

(***************************************************************************)
(* Python escape syntax                                                    *)
(***************************************************************************)
IsHexCp(x) == (x >= 48 /\ x <= 57) \/ (x >= 97 /\ x <= 102)
HexVal(x) == IF x <= 57 THEN x - 48 ELSE x - 87
HexCp(d) == IF d < 10 THEN 48 + d ELSE 87 + d

RECURSIVE HexRun(_, _)
(* number of hex digits starting at position i *)
HexRun(s, i) == IF i <= Len(s) /\ IsHexCp(s[i]) THEN 1 + HexRun(s, i + 1) ELSE 0

RECURSIVE ZeroPad(_, _)
ZeroPad(digits, width) == IF Len(digits) >= width THEN digits ELSE ZeroPad(<<48>> \o digits, width)

RECURSIVE PyRewriteFrom(_, _)
PyRewriteFrom(s, i) ==
  IF i > Len(s) THEN <<>>
  \* an escaped backslash is one token: what follows it is literal text, never an escape (D15: "\\u{3}" is a
  \* backslash and three times the letter u)
  ELSE IF s[i] = 92 /\ i + 1 <= Len(s) /\ s[i + 1] = 92 THEN <<92, 92>> \o PyRewriteFrom(s, i + 2)
  ELSE IF s[i] = 92 /\ i + 2 <= Len(s) /\ s[i + 1] = 117 /\ s[i + 2] = 123
       THEN LET n == HexRun(s, i + 3) IN
            IF n >= 1 /\ n <= 6 /\ i + 3 + n <= Len(s) /\ s[i + 3 + n] = 125
            THEN LET digits == SubSeq(s, i + 3, i + 2 + n) IN
                 (IF n <= 4 THEN <<92, 117>> \o ZeroPad(digits, 4)
                            ELSE <<92, 85>> \o ZeroPad(digits, 8))
                 \o PyRewriteFrom(s, i + 4 + n)
            ELSE <<s[i]>> \o PyRewriteFrom(s, i + 1)
       ELSE <<s[i]>> \o PyRewriteFrom(s, i + 1)
(* the rewriting only happens when escaping is on (src/python.rs py_build) *)
PyRewrite(s, cfg) == IF cfg.escape THEN PyRewriteFrom(s, 1) ELSE s

RECURSIVE HasBraceEscapeFrom(_, _)
HasBraceEscapeFrom(s, i) ==
  IF i + 2 > Len(s) THEN FALSE
  ELSE IF s[i] = 92 /\ s[i + 1] = 92 THEN HasBraceEscapeFrom(s, i + 2)      \* escaped backslash: one token
  ELSE (s[i] = 92 /\ s[i + 1] = 117 /\ s[i + 2] = 123) \/ HasBraceEscapeFrom(s, i + 1)
=============================================================================

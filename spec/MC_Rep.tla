------------------------------- MODULE MC_Rep --------------------------------
(***************************************************************************)
(* Bounded model of trie insertion and minimisation over COUNTED symbols   *)
(* (repetition conversion on): every set of at most MaxSize clusters of at *)
(* most MaxSyms symbols (unit a or b, count 1..MaxCount).                  *)
(*                                                                         *)
(*  Widen = FALSE (design): the trie accepts exactly the clusters          *)
(*  Widen = TRUE  (as built, KNOWN_FINDINGS D2): the trie may accept MORE  *)
(*     (it never loses a cluster), and it differs from the union only if   *)
(*     some edge was widened                                               *)
(*  In both: minimisation (Hopcroft with the code's fuzzy label match      *)
(*  value /\ (max \/ min)) preserves the trie's language.                  *)
(***************************************************************************)
EXTENDS Algo, TLC, Json

CONSTANTS MaxSize, MaxSyms, MaxCount, Widen

Dev == [widen |-> Widen, finals |-> FALSE]
Sym(a, k) == [u |-> <<<<a>>>>, lo |-> k, hi |-> k, nest |-> <<>>]
Syms == {Sym(a, k) : a \in 1 .. 2, k \in 1 .. MaxCount}
RECURSIVE ClustersOfLen(_)
ClustersOfLen(n) == IF n = 0 THEN {<<>>} ELSE {c \o <<s>> : c \in ClustersOfLen(n - 1), s \in Syms}
(* a cluster never has two adjacent symbols with the same unit (they would have been merged) *)
WellFormedCluster(c) == \A i \in 1 .. Len(c) - 1 : c[i].u # c[i + 1].u
Clusters == {c \in UNION {ClustersOfLen(n) : n \in 1 .. MaxSyms} : WellFormedCluster(c)}

(* the code inserts clusters in the order of the sorted test cases: by expanded length, then text *)
RECURSIVE Expand(_)
Expand(c) == IF c = <<>> THEN <<>> ELSE [i \in 1 .. Head(c).lo |-> Head(c).u[1][1]] \o Expand(Tail(c))
ClLess(x, y) == TcLess(Expand(x), Expand(y))

VARIABLES pc, S, order, trie, min
vars == <<pc, S, order, trie, min>>
NoG == [n |-> 1, es |-> <<>>, fin |-> {}, alpha |-> {}, init |-> 0]

Init == pc = "input" /\ S = {} /\ order = <<>> /\ trie = NoG /\ min = NoG
DoChoose == /\ pc = "input"
            /\ \E s \in {x \in SUBSET Clusters : x # {} /\ Cardinality(x) <= MaxSize
                                                  /\ \A a, b \in x : a # b => Expand(a) # Expand(b)} : S' = s
            /\ pc' = "sort" /\ UNCHANGED <<order, trie, min>>
DoSort == /\ pc = "sort" /\ order' = SortSeq(SetToSeq(S), ClLess)
          /\ pc' = "trie" /\ UNCHANGED <<S, trie, min>>
DoTrie == /\ pc = "trie" /\ trie' = BuildTrie(order, Dev) @@ [init |-> 0]
          /\ pc' = "min" /\ UNCHANGED <<S, order, min>>
DoMin == /\ pc = "min" /\ min' = Minimize(trie, Dev)
         /\ pc' = "done" /\ UNCHANGED <<S, order, trie>>
Next == DoChoose \/ DoSort \/ DoTrie \/ DoMin
Spec == Init /\ [][Next]_vars

Union == UNION {SymsLang(c) : c \in S}
TrieG == AsGraph(trie, 0)
MinG == AsGraph(min, min.init)
Widened == \E i \in DOMAIN trie.es : trie.es[i].sym.lo # trie.es[i].sym.hi

TrieSound == pc \in {"min", "done"} => Union \subseteq GraphLang(TrieG)
TrieExact == pc \in {"min", "done"} => (Widen \/ GraphLang(TrieG) = Union)
OnlyWidening == pc \in {"min", "done"} => (GraphLang(TrieG) # Union => Widened)
MinPreserves == pc = "done" => GraphLang(MinG) = GraphLang(TrieG)
WordStr(w) == Join([i \in DOMAIN w |-> Letters[w[i]]])
Replay == pc = "done" =>
   PrintT(ToJson([replay |-> "rep", tcs |-> [i \in DOMAIN order |-> WordStr(Expand(order[i]))],
                  exact |-> (GraphLang(TrieG) = Union), widened |-> Widened]))
SymbolicAgrees == pc = "done" =>
   EqD(DescGraph(MinG), DescGraph(TrieG), 2, FALSE) = (GraphLang(MinG) = GraphLang(TrieG))
=============================================================================

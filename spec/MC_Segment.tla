----------------------------- MODULE MC_Segment ------------------------------
(***************************************************************************)
(* S3 (Algo!SegmentLens) over all attribute words of length <= MaxLen: a   *)
(* cell says whether an extended grapheme cluster starts at it (gb, from   *)
(* the segmentation oracle), whether its general category is Mark / Other  *)
(* (sp) and whether it is a backslash (bs).  Design facts of the rule:     *)
(*   Tiles        the symbols tile the word                                *)
(*   NoMerge      a symbol never spans two oracle clusters                 *)
(*   Alone        a backslash, a mark, a control / format character is     *)
(*                always a symbol of its own (the escaping of S11 works on *)
(*                whole symbols: D3)                                       *)
(*   KeepWhole    a cluster without such characters stays one symbol       *)
(*   OldRuleFails the rule before the D3 repair (only clusters of exactly  *)
(*                two characters were split on a backslash) breaks Alone - *)
(*                negative control, TLC must refute it                     *)
(***************************************************************************)
EXTENDS Algo, TLC

CONSTANTS MaxLen, Rule     \* Rule = "fixed" | "old"

Cell == [gb : BOOLEAN, sp : BOOLEAN, bs : BOOLEAN]
RECURSIVE WordsOfLen(_)
WordsOfLen(n) == IF n = 0 THEN {<<>>} ELSE {w \o <<c>> : w \in WordsOfLen(n - 1), c \in Cell}
Words == {w \in UNION {WordsOfLen(n) : n \in 1 .. MaxLen} : w[1].gb /\ \A i \in DOMAIN w : ~(w[i].bs /\ w[i].sp)}

(* the rule before the D3 repair: `it.chars().count() == 2 && it.contains('\\')` *)
RECURSIVE OldSegFrom(_, _)
OldSegFrom(w, i) ==
  IF i > Len(w) THEN <<>>
  ELSE LET j == Min({e \in ClusterEnds(w) : e >= i})
           n == j - i + 1
           split == (n = 2 /\ \E x \in i .. j : w[x].bs) \/ (\E x \in i .. j : w[x].sp)
       IN (IF split /\ n >= 2 THEN [x \in 1 .. n |-> 1] ELSE <<n>>) \o OldSegFrom(w, j + 1)
Seg(w) == IF Rule = "old" THEN OldSegFrom(w, 1) ELSE SegmentLens(w)

VARIABLE w
Init == w \in Words
Next == UNCHANGED w
Spec == Init /\ [][Next]_w

RECURSIVE Sum(_)
Sum(s) == IF s = <<>> THEN 0 ELSE Head(s) + Sum(Tail(s))
Lens == Seg(w)
Starts == SegStarts(Lens)
SymOf(i) == CHOOSE k \in DOMAIN Lens : Starts[k] <= i /\ i < Starts[k] + Lens[k]

Tiles == Sum(Lens) = Len(w) /\ \A k \in DOMAIN Lens : Lens[k] >= 1
NoMerge == \A k \in DOMAIN Lens : \A i \in Starts[k] + 1 .. Starts[k] + Lens[k] - 1 : ~w[i].gb
Alone == \A i \in DOMAIN w : (w[i].bs \/ w[i].sp) => Lens[SymOf(i)] = 1
ClusterStarts == {i \in DOMAIN w : w[i].gb}
EndOf(i) == Min({e \in ClusterEnds(w) : e >= i})
KeepWhole == \A i \in ClusterStarts :
               (\A x \in i .. EndOf(i) : ~w[x].bs /\ ~w[x].sp)
                  => \E k \in DOMAIN Lens : Starts[k] = i /\ Lens[k] = EndOf(i) - i + 1
=============================================================================

------------------------------ MODULE MC_Escape -------------------------------
(***************************************************************************)
(* The escape aspects of the pipeline (C11, C06): words over an ASCII      *)
(* letter, a two-byte BMP character and an astral character are run        *)
(* through the Level-2 pipeline under                                      *)
(*      escape x surrogate pairs x repetitions x capturing groups.         *)
(* What depends on the escaping besides the text of a character:           *)
(*   - the sort order of the test cases (byte length first),               *)
(*   - is_single_codepoint: an escaped character is several characters     *)
(*     long, so two escaped alternatives are NOT merged into a class,      *)
(*   - the quantifier of a repeated escaped character needs a group only   *)
(*     for a surrogate pair.                                               *)
(*   PresentationOnly  escaping does not change the language (C06 / C11)   *)
(*   AsciiOnly         with escaping no non-ASCII letter is left (C11)     *)
(*   NoClassOfEscapes  a character class never contains an escaped letter  *)
(* Every behaviour prints the predicted build() result; the harness        *)
(* compares it with the real library (Level-2 drift).                      *)
(***************************************************************************)
EXTENDS Algo, Builder, TLC, Json

CONSTANTS MaxLen, MaxSize

Alpha == {1, 7, 8}
RECURSIVE WordsOfLen(_)
WordsOfLen(n) == IF n = 0 THEN {<<>>} ELSE {w \o <<a>> : w \in WordsOfLen(n - 1), a \in Alpha}
Words == UNION {WordsOfLen(n) : n \in 1 .. MaxLen}
Inputs == UNION {kSubset(k, Words) : k \in 1 .. MaxSize}
Cfgs == {[DefaultCfg EXCEPT !.escape = x, !.surr = s, !.rep = r, !.capture = c] : x, s, r, c \in BOOLEAN}
GoodCfgs == {c \in Cfgs : c.surr => c.escape}

VARIABLES T, cfg, p
vars == <<T, cfg, p>>
None == [final |-> XNone]
Init == T \in Inputs /\ cfg \in GoodCfgs /\ p = None
Next == p = None /\ p' = Pipeline(T, cfg, AsBuilt) /\ UNCHANGED <<T, cfg>>
Spec == Init /\ [][Next]_vars

Done == p # None
Plain == [cfg EXCEPT !.escape = FALSE, !.surr = FALSE]
RECURSIVE XAtoms(_)
XAtoms(e) == CASE e.t = "none" -> {}
               [] e.t = "lit"  -> UNION {{g.u[i][1] : i \in DOMAIN g.u} : g \in {e.gs[k] : k \in DOMAIN e.gs}}
               [] e.t = "cc"   -> e.s
               [] e.t = "cat2" -> XAtoms(e.a) \cup XAtoms(e.b)
               [] e.t = "altn" -> UNION {XAtoms(e.xs[i]) : i \in DOMAIN e.xs}
               [] e.t = "opt"  -> XAtoms(e.x)
RECURSIVE XClassAtoms(_)
XClassAtoms(e) == CASE e.t \in {"none", "lit"} -> {}
                    [] e.t = "cc"   -> e.s
                    [] e.t = "cat2" -> XClassAtoms(e.a) \cup XClassAtoms(e.b)
                    [] e.t = "altn" -> UNION {XClassAtoms(e.xs[i]) : i \in DOMAIN e.xs}
                    [] e.t = "opt"  -> XClassAtoms(e.x)
(* the language, read back through the inverse of the escaping *)
Unesc(a) == CASE a = 9 -> 7 [] a \in {10, 11} -> 8 [] OTHER -> a
UnescWord(w) == [i \in DOMAIN w |-> Unesc(w[i])]
ModEps(L) == L \ {<<>>}
PresentationOnly == Done =>
   ModEps({UnescWord(w) : w \in LangOf(XToLang(p.final))}) = ModEps(LangOf(XToLang(Pipeline(T, Plain, AsBuilt).final)))
AsciiOnly == Done => (cfg.escape => XAtoms(p.final) \cap {7, 8} = {})
NoClassOfEscapes == Done => XClassAtoms(p.final) \cap {9, 10, 11} = {}
WordStr(w) == Join([i \in DOMAIN w |-> Letters[w[i]]])
Replay == Done =>
   PrintT(ToJson([replay |-> "escape", tcs |-> [w \in T |-> WordStr(w)],
                  escape |-> cfg.escape, surr |-> cfg.surr, rep |-> cfg.rep, capture |-> cfg.capture,
                  out |-> PrintRegex(p.final, cfg)]))
=============================================================================

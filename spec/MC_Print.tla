------------------------------ MODULE MC_Print --------------------------------
(***************************************************************************)
(* Bounded model of the complete printer (Algo!VRaw / Indented /           *)
(* PrintFull): every set of at most MaxSize words over {a,b}^<=MaxLen is   *)
(* run through the Level-2 pipeline (with and without repetition           *)
(* conversion) and printed under every combination of                      *)
(*        verbose x capture x colour x no-start x no-end.                  *)
(*   C15   removing the colour pieces of the highlighted text gives the    *)
(*         plain text, line by line, indentation included                  *)
(*   C06   the layout of verbose mode contains only line breaks and        *)
(*         indentation besides the pieces of the compact form              *)
(*   the compact printer of MC_Pipeline (PrintRegex) is the special case   *)
(* Each behaviour prints the predicted build() result; the harness         *)
(* compares it with the real library (Level-2 drift of S11) and validates  *)
(* the real run's trace.                                                   *)
(***************************************************************************)
EXTENDS Algo, Builder, TLC, Json

CONSTANTS MaxLen, MaxSize

RECURSIVE WordsOfLen(_)
WordsOfLen(n) == IF n = 0 THEN {<<>>} ELSE {w \o <<a>> : w \in WordsOfLen(n - 1), a \in 1 .. 2}
Words == UNION {WordsOfLen(n) : n \in 1 .. MaxLen}
Inputs == {T \in SUBSET Words : T # {} /\ Cardinality(T) <= MaxSize}
Cfgs == {[DefaultCfg EXCEPT !.verbose = v, !.capture = c, !.nostart = a, !.noend = b, !.rep = r] :
            v, c, a, b, r \in BOOLEAN}

VARIABLES T, cfg, e
vars == <<T, cfg, e>>
Init == T \in Inputs /\ cfg \in Cfgs /\ e = XNone
Next == e = XNone /\ e' = Pipeline(T, cfg, AsBuilt).final /\ UNCHANGED <<T, cfg>>
Spec == Init /\ [][Next]_vars

Col == [cfg EXCEPT !.color = TRUE]
C15 == e # XNone =>
         IF cfg.verbose THEN StripPieces(Indented(e, Col)) = Indented(e, cfg)
         ELSE StripLine(VRaw(e, Col)) = VRaw(e, cfg)
(* verbose output = compact output + layout *)
Compact == [cfg EXCEPT !.verbose = FALSE]
NoLayout(ps) == SelectSeq(ps, LAMBDA p : p # NL)
C06Layout == e # XNone =>
   (cfg.verbose => NoLayout(VRaw(e, cfg)) = (<<"(?x)">> \o VRaw(e, Compact)))
OldPrinter == e # XNone => (~cfg.verbose => PrintFull(e, cfg) = PrintRegex(e, cfg))
WordStr(w) == Join([i \in DOMAIN w |-> Letters[w[i]]])
Replay == e # XNone =>
   PrintT(ToJson([replay |-> "print", tcs |-> [w \in T |-> WordStr(w)],
                  verbose |-> cfg.verbose, capture |-> cfg.capture, nostart |-> cfg.nostart, noend |-> cfg.noend,
                  rep |-> cfg.rep, plain |-> PrintFull(e, cfg), colored |-> PrintFull(e, Col)]))
=============================================================================

------------------------------ MODULE MC_Verbose ------------------------------
(***************************************************************************)
(* Verbose mode (C06) at the token level.  Under (?x) the regex crate      *)
(* ignores unescaped White_Space and everything from an unescaped '#' to   *)
(* the end of the line.  The printer (src/regexp.rs Display, after         *)
(* escape_regexp_symbols) therefore has to write                            *)
(*    ' '  as  \<space>      '#' as \#        tab / LF / CR as \t \n \r     *)
(*    VT, FF as \v \f        other White_Space (NBSP, U+2028 ...) as \uXXXX *)
(* and may then insert its own layout (line breaks, indentation).          *)
(* Characters: "p" plain, "sp" space, "hs" '#', "tb" tab, "nl" line feed,  *)
(* "nb" non-ASCII white space.  Tokens: <<"raw", c>>, <<"esc", c>> (an      *)
(* escape sequence denoting exactly c), <<"cls", "s">> (the class \s),      *)
(* <<"lay", c>> (layout inserted by the printer).                          *)
(*   Mode = "fixed"   the rule above                                       *)
(*   Mode = "widen"   the code before the D4 repair: other White_Space is  *)
(*                    written as \s  -> TLC refutes Exact (negative control)*)
(***************************************************************************)
EXTENDS Naturals, Sequences, FiniteSets, TLC

CONSTANTS MaxLen, Mode

Chars == {"p", "sp", "hs", "tb", "nl", "nb"}
IsWs(c) == c \in {"sp", "tb", "nl", "nb"}

PrintChar(c) ==
  CASE c = "p" -> <<<<"raw", "p">>>>
    [] c = "nb" -> IF Mode = "widen" THEN <<<<"cls", "s">>>> ELSE <<<<"esc", "nb">>>>
    [] OTHER -> <<<<"esc", c>>>>          \* \<space>, \#, \t, \n

RECURSIVE PrintWord(_)
PrintWord(w) == IF w = <<>> THEN <<>> ELSE PrintChar(Head(w)) \o PrintWord(Tail(w))
(* the layout around a literal: "(?x)" line break, indentation, the literal, line break, "$" *)
Layout(toks) == <<<<"lay", "nl">>, <<"lay", "sp">>, <<"lay", "sp">>>> \o toks \o <<<<"lay", "nl">>>>

(* what the engine's lexer keeps under (?x): positions are sets of characters *)
RECURSIVE XLex(_, _)
XLex(toks, inComment) ==
  IF toks = <<>> THEN <<>>
  ELSE LET t == Head(toks)
           c == t[2] IN
       IF inComment THEN XLex(Tail(toks), ~(t[1] \in {"raw", "lay"} /\ c = "nl"))
       ELSE IF t[1] \in {"raw", "lay"} /\ IsWs(c) THEN XLex(Tail(toks), FALSE)           \* ignored
       ELSE IF t[1] \in {"raw", "lay"} /\ c = "hs" THEN XLex(Tail(toks), TRUE)            \* comment starts
       ELSE IF t[1] = "cls" THEN <<{"sp", "tb", "nl", "nb"}>> \o XLex(Tail(toks), FALSE)  \* \s
       ELSE <<{c}>> \o XLex(Tail(toks), FALSE)

RECURSIVE WordsOfLen(_)
WordsOfLen(n) == IF n = 0 THEN {<<>>} ELSE {w \o <<a>> : w \in WordsOfLen(n - 1), a \in Chars}
Words == UNION {WordsOfLen(n) : n \in 0 .. MaxLen}

VARIABLE w
Init == w \in Words
Next == UNCHANGED w
Spec == Init /\ [][Next]_w

(* the verbose pattern denotes exactly the word *)
Exact == XLex(Layout(PrintWord(w)), FALSE) = [i \in DOMAIN w |-> {w[i]}]
(* and printing the raw characters instead (no escaping at all) would NOT be exact whenever the word
   contains white space or '#': the escaping is necessary, not decorative *)
RawIsWrong == (\E i \in DOMAIN w : IsWs(w[i]) \/ w[i] = "hs") =>
                 XLex(Layout([i \in DOMAIN w |-> <<"raw", w[i]>>]), FALSE) # [i \in DOMAIN w |-> {w[i]}]
=============================================================================

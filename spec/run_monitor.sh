#!/bin/sh
# usage: run_monitor.sh <trace.ndjson> <metadir>   (prints TLC output)
TRACE="$1" JAVA_TOOL_OPTIONS="-Xss1g -Dtlc2.tool.queue.IStateQueue=StateDeque" exec timeout ${MON_TIMEOUT:-3000} java -XX:+UseParallelGC -Xmx${MON_XMX:-3g} -cp /opt/veriftools/tla/tla2tools.jar:/opt/veriftools/tla/CommunityModules-deps.jar tlc2.TLC -workers 1 -metadir "$2" -cleanup -noGenerateSpecTE -checkpoint 0 -config /verif/spec/Monitor.cfg /verif/spec/Monitor.tla

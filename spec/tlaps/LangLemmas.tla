----------------------------- MODULE LangLemmas ------------------------------
(***************************************************************************)
(* Machine-checked (TLAPS) facts about the language algebra of Lang.tla:   *)
(* the empty word is the unit of concatenation of languages, and the       *)
(* "modulo the empty word" comparison used for the recorded deviation D1   *)
(* (eps-dropped) is implied by equality and is an equivalence.             *)
(* The definitions are textually those of Lang.tla.                        *)
(***************************************************************************)
EXTENDS Sequences, TLAPS

(* Lang.tla writes {x \o y : x \in A, y \in B}; the provers need the single-variable form *)
ConcatL(A, B) == {p[1] \o p[2] : p \in A \X B}
NoEps(L) == L \ {<<>>}

THEOREM UnitRight ==
  ASSUME NEW S, NEW A \in SUBSET Seq(S)
  PROVE  ConcatL(A, {<<>>}) = A
<1>1. \A x \in A : x \o <<>> = x
  OBVIOUS
<1>2. ASSUME NEW z \in ConcatL(A, {<<>>}) PROVE z \in A
  <2>1. PICK p \in A \X {<<>>} : z = p[1] \o p[2]
    BY DEF ConcatL
  <2>2. PICK x \in A : z = x \o <<>>
    BY <2>1
  <2> QED BY <1>1, <2>2
<1>3. ASSUME NEW z \in A PROVE z \in ConcatL(A, {<<>>})
  <2>1. z = z \o <<>>
    BY <1>1
  <2>2. <<z, <<>>>> \in A \X {<<>>}
    OBVIOUS
  <2>3. z = <<z, <<>>>>[1] \o <<z, <<>>>>[2]
    BY <2>1
  <2> QED BY <2>2, <2>3 DEF ConcatL
<1> QED BY <1>2, <1>3

THEOREM UnitLeft ==
  ASSUME NEW S, NEW A \in SUBSET Seq(S)
  PROVE  ConcatL({<<>>}, A) = A
<1>1. \A x \in A : <<>> \o x = x
  OBVIOUS
<1>2. ASSUME NEW z \in ConcatL({<<>>}, A) PROVE z \in A
  <2>1. PICK p \in {<<>>} \X A : z = p[1] \o p[2]
    BY DEF ConcatL
  <2>2. PICK x \in A : z = <<>> \o x
    BY <2>1
  <2> QED BY <1>1, <2>2
<1>3. ASSUME NEW z \in A PROVE z \in ConcatL({<<>>}, A)
  <2>1. z = <<>> \o z
    BY <1>1
  <2>2. <<<<>>, z>> \in {<<>>} \X A
    OBVIOUS
  <2>3. z = <<<<>>, z>>[1] \o <<<<>>, z>>[2]
    BY <2>1
  <2> QED BY <2>2, <2>3 DEF ConcatL
<1> QED BY <1>2, <1>3

THEOREM EqualImpliesEqualModEps ==
  ASSUME NEW L1, NEW L2, L1 = L2
  PROVE  NoEps(L1) = NoEps(L2)
BY DEF NoEps

THEOREM ModEpsTransitive ==
  ASSUME NEW L1, NEW L2, NEW L3, NoEps(L1) = NoEps(L2), NoEps(L2) = NoEps(L3)
  PROVE  NoEps(L1) = NoEps(L3)
OBVIOUS

(* if two languages agree modulo the empty word and on the empty word, they are equal:
   the monitor's two-step comparison (nullability of the roots, then bisimulation) is complete *)
THEOREM ModEpsPlusEpsIsEqual ==
  ASSUME NEW L1, NEW L2, NoEps(L1) = NoEps(L2), (<<>> \in L1) <=> (<<>> \in L2)
  PROVE  L1 = L2
BY DEF NoEps
=============================================================================

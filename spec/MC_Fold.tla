------------------------------- MODULE MC_Fold --------------------------------
(***************************************************************************)
(* S1 (case folding for (?i)) over an abstract alphabet that contains      *)
(* every combination the code branches on:                                 *)
(*   1 'A'  lower = <<2>>     orbit {1,2}     ordinary cased pair          *)
(*   2 'a'  lower = <<2>>     orbit {1,2}                                  *)
(*   3 'I.' lower = <<4,5>>   orbit {3}       lower-casing changes the     *)
(*                                            number of code points        *)
(*   4 'i'  lower = <<4>>     orbit {4}                                    *)
(*   5 dot  lower = <<5>>     orbit {5}       uncased                      *)
(*   6 'L'  lower = <<7>>     orbit {6}       the standard library knows a *)
(*   7 'l'  lower = <<7>>     orbit {7}       mapping the regex crate does *)
(*                                            not (newer Unicode version)  *)
(* Fold(tc) lower-cases a test case iff the count is kept AND (Agree) the  *)
(* regex crate folds every changed character to its lower-case form.       *)
(* P_C04: under (?i) the folded test case denotes the fold-orbit language  *)
(* of the ORIGINAL.  With Agree = FALSE (the code before the D5 repair)    *)
(* TLC finds the counterexample <<6>>.                                     *)
(***************************************************************************)
EXTENDS Naturals, Sequences, FiniteSets, TLC, Json

CONSTANTS MaxLen, Agree

Lower == [c \in 1 .. 7 |-> CASE c = 1 -> <<2>> [] c = 3 -> <<4, 5>> [] c = 6 -> <<7>> [] OTHER -> <<c>>]
Orbit == [c \in 1 .. 7 |-> CASE c \in {1, 2} -> {1, 2} [] OTHER -> {c}]

RECURSIVE LowerWord(_)
LowerWord(w) == IF w = <<>> THEN <<>> ELSE Lower[Head(w)] \o LowerWord(Tail(w))
Fold(w) == LET l == LowerWord(w) IN
           IF Len(l) = Len(w) /\ (~Agree \/ \A i \in DOMAIN w : l[i] \in Orbit[w[i]]) THEN l ELSE w

RECURSIVE Prod(_)
Prod(sets) == IF sets = <<>> THEN {<<>>} ELSE {<<a>> \o r : a \in Head(sets), r \in Prod(Tail(sets))}
OrbitLang(w) == Prod([i \in DOMAIN w |-> Orbit[w[i]]])

RECURSIVE WordsOfLen(_)
WordsOfLen(n) == IF n = 0 THEN {<<>>} ELSE {w \o <<a>> : w \in WordsOfLen(n - 1), a \in 1 .. 7}
Words == UNION {WordsOfLen(n) : n \in 0 .. MaxLen}

VARIABLES w, folded
Init == w \in Words /\ folded = <<>>
Next == folded = <<>> /\ w # <<>> /\ folded' = Fold(w) /\ UNCHANGED w
Spec == Init /\ [][Next]_<<w, folded>>

P_C04 == folded # <<>> => OrbitLang(folded) = OrbitLang(w)
(* test cases equal up to folding are mapped to the same folded form (they collapse to one alternative) *)
(* (only for words whose lower-casing keeps the count: "A I." and "a I." stay two spellings, which is why the *)
(* monitor treats the collapse as a structural note and gates on the language only)                          *)
Collapse == \A v \in Words : (Len(v) = Len(w) /\ w # <<>> /\ OrbitLang(v) = OrbitLang(w)
                               /\ Len(LowerWord(v)) = Len(v) /\ Len(LowerWord(w)) = Len(w)
                               /\ (Agree => \A i \in DOMAIN w : 6 # w[i] /\ 6 # v[i]))
                              => Fold(v) = Fold(w)
Real == <<"A", "a", "İ", "i", "̇", "Ƛ", "ƛ">>
Replay == folded # <<>> => PrintT(ToJson([replay |-> "fold", w |-> w, folded |-> folded]))
=============================================================================

----------------------------- MODULE AP_Builder ------------------------------
(***************************************************************************)
(* Typed copy of the settings part of Builder.tla for Apalache: ONE object *)
(* whose settings evolve by arbitrary setter calls with arbitrary integer  *)
(* arguments, unboundedly long.  IndInv is inductive, hence it holds in    *)
(* every reachable state of every history:                                 *)
(*   - the thresholds are always >= 1 (a rejected call changes nothing)    *)
(*   - surrogate pairs are only ever on together with escaping             *)
(*   - "failed" records exactly the documented failures                    *)
(* Checked with                                                            *)
(*   apalache-mc check --init=Init    --inv=IndInv --length=0 AP_Builder.tla *)
(*   apalache-mc check --init=IndInit --inv=IndInv --length=1 AP_Builder.tla *)
(* The operator Effect below is textually the one of Builder.tla (bounded  *)
(* model MC_Builder and the trace monitor use that one).                   *)
(***************************************************************************)
EXTENDS Integers

VARIABLES
  \* @type: { digit: Bool, nondigit: Bool, space: Bool, nonspace: Bool, word: Bool, nonword: Bool, rep: Bool, icase: Bool, capture: Bool, escape: Bool, surr: Bool, verbose: Bool, nostart: Bool, noend: Bool, color: Bool, minrep: Int, minsub: Int };
  cfg,
  \* @type: Bool;
  failed

DefaultCfg == [digit |-> FALSE, nondigit |-> FALSE, space |-> FALSE, nonspace |-> FALSE,
               word |-> FALSE, nonword |-> FALSE, rep |-> FALSE, icase |-> FALSE,
               capture |-> FALSE, escape |-> FALSE, surr |-> FALSE, verbose |-> FALSE,
               nostart |-> FALSE, noend |-> FALSE, color |-> FALSE, minrep |-> 1, minsub |-> 1]

Names == {"digit", "nondigit", "space", "nonspace", "word", "nonword", "rep", "icase", "capture", "verbose",
          "nostart", "noend", "color", "noanchors", "escape", "minrep", "minsub"}

\* @type: (Str, Int) => Bool;
Apply(name, arg) ==
  CASE name = "digit"     -> cfg' = [cfg EXCEPT !.digit = TRUE] /\ failed' = FALSE
    [] name = "nondigit"  -> cfg' = [cfg EXCEPT !.nondigit = TRUE] /\ failed' = FALSE
    [] name = "space"     -> cfg' = [cfg EXCEPT !.space = TRUE] /\ failed' = FALSE
    [] name = "nonspace"  -> cfg' = [cfg EXCEPT !.nonspace = TRUE] /\ failed' = FALSE
    [] name = "word"      -> cfg' = [cfg EXCEPT !.word = TRUE] /\ failed' = FALSE
    [] name = "nonword"   -> cfg' = [cfg EXCEPT !.nonword = TRUE] /\ failed' = FALSE
    [] name = "rep"       -> cfg' = [cfg EXCEPT !.rep = TRUE] /\ failed' = FALSE
    [] name = "icase"     -> cfg' = [cfg EXCEPT !.icase = TRUE] /\ failed' = FALSE
    [] name = "capture"   -> cfg' = [cfg EXCEPT !.capture = TRUE] /\ failed' = FALSE
    [] name = "verbose"   -> cfg' = [cfg EXCEPT !.verbose = TRUE] /\ failed' = FALSE
    [] name = "nostart"   -> cfg' = [cfg EXCEPT !.nostart = TRUE] /\ failed' = FALSE
    [] name = "noend"     -> cfg' = [cfg EXCEPT !.noend = TRUE] /\ failed' = FALSE
    [] name = "color"     -> cfg' = [cfg EXCEPT !.color = TRUE] /\ failed' = FALSE
    [] name = "noanchors" -> cfg' = [cfg EXCEPT !.nostart = TRUE, !.noend = TRUE] /\ failed' = FALSE
    [] name = "escape"    -> cfg' = [cfg EXCEPT !.escape = TRUE, !.surr = (arg = 1)] /\ failed' = FALSE
    [] name = "minrep"    -> IF arg >= 1 THEN cfg' = [cfg EXCEPT !.minrep = arg] /\ failed' = FALSE
                             ELSE cfg' = cfg /\ failed' = TRUE
    [] OTHER              -> IF arg >= 1 THEN cfg' = [cfg EXCEPT !.minsub = arg] /\ failed' = FALSE
                             ELSE cfg' = cfg /\ failed' = TRUE

Init == cfg = DefaultCfg /\ failed = FALSE
Next == \E name \in Names : \E arg \in Int : Apply(name, arg)

IndInv == /\ cfg.minrep >= 1 /\ cfg.minsub >= 1
          /\ (cfg.surr => cfg.escape)
(* any state satisfying the invariant (records are typed, so TypeOK is implicit) *)
IndInit == /\ cfg \in [digit: BOOLEAN, nondigit: BOOLEAN, space: BOOLEAN, nonspace: BOOLEAN, word: BOOLEAN,
                      nonword: BOOLEAN, rep: BOOLEAN, icase: BOOLEAN, capture: BOOLEAN, escape: BOOLEAN,
                      surr: BOOLEAN, verbose: BOOLEAN, nostart: BOOLEAN, noend: BOOLEAN, color: BOOLEAN,
                      minrep: Int, minsub: Int]
           /\ failed \in BOOLEAN
           /\ IndInv
=============================================================================

-------------------------------- MODULE Lang --------------------------------
(***************************************************************************)
(* The language algebra that gives every artefact of grex's pipeline its   *)
(* meaning.  Words are sequences of atoms (abstract characters, see        *)
(* DESIGN.md 4.3); every stage artefact denotes a FINITE set of words:     *)
(*   - a symbol    [u, lo, hi, nest]   (src/grapheme.rs Grapheme)          *)
(*   - a cluster   sequence of symbols (src/cluster.rs GraphemeCluster)    *)
(*   - a graph     [start, finals, nodes, edges, syms]  (src/dfa.rs)       *)
(*   - an AST      eps | cls | cat | alt | rep | cap | bol | eol | lit     *)
(*                 (src/expression.rs, and the regex crate's HIR)          *)
(* plus the ORDERED (leftmost-first, greedy) semantics of the regex crate  *)
(* used by the anchor property C08.                                        *)
(***************************************************************************)
EXTENDS Naturals, Integers, Sequences, FiniteSets

ToSet(seq) == {seq[i] : i \in DOMAIN seq}

MaxOf(a, b) == IF a >= b THEN a ELSE b
MinOf(a, b) == IF a <= b THEN a ELSE b

ConcatL(A, B) == {x \o y : x \in A, y \in B}

RECURSIVE PowL(_, _)
PowL(L, n) == IF n = 0 THEN {<<>>} ELSE ConcatL(L, PowL(L, n - 1))

RangeL(L, lo, hi) == UNION {PowL(L, k) : k \in lo .. hi}

(* product of a sequence of atom SETS *)
RECURSIVE ProdS(_)
ProdS(sets) == IF sets = <<>> THEN {<<>>}
               ELSE {<<a>> \o w : a \in Head(sets), w \in ProdS(Tail(sets))}

(* product of a sequence of atom SEQUENCES (as they arrive from JSON) *)
ProdQ(seqs) == ProdS([i \in DOMAIN seqs |-> ToSet(seqs[i])])

(***************************************************************************)
(* Symbols and clusters                                                    *)
(***************************************************************************)
RECURSIVE SymLang(_), SymsLang(_), NestOk(_)
UnitLang(sym) == ProdQ(sym.u)
BodyLang(sym) == IF sym.nest = <<>> THEN UnitLang(sym) ELSE SymsLang(sym.nest)
SymLang(sym)  == RangeL(BodyLang(sym), sym.lo, sym.hi)
SymsLang(syms) == IF syms = <<>> THEN {<<>>}
                  ELSE ConcatL(SymLang(Head(syms)), SymsLang(Tail(syms)))
(* the nested re-factoring of a repeated unit must denote the unit itself *)
NestOk(sym) == \/ sym.nest = <<>>
               \/ /\ SymsLang(sym.nest) = UnitLang(sym)
                  /\ \A i \in DOMAIN sym.nest : NestOk(sym.nest[i])

SymDepthOk(sym, P(_)) ==
  LET RECURSIVE go(_)
      go(s) == P(s) /\ \A i \in DOMAIN s.nest : go(s.nest[i])
  IN go(sym)

(***************************************************************************)
(* Regex ASTs (set semantics = language matched in full)                   *)
(***************************************************************************)
RECURSIVE LangOf(_), CatLang(_), Unbounded(_), WellFormed(_)
CatLang(xs) == IF xs = <<>> THEN {<<>>} ELSE ConcatL(LangOf(Head(xs)), CatLang(Tail(xs)))
LangOf(e) ==
  CASE e.t = "eps" -> {<<>>}
    [] e.t = "cls" -> {<<a>> : a \in ToSet(e.s)}
    [] e.t = "cat" -> CatLang(e.xs)
    [] e.t = "alt" -> UNION {LangOf(e.xs[i]) : i \in DOMAIN e.xs}
    [] e.t = "rep" -> RangeL(LangOf(e.x), e.lo, IF e.hi < 0 THEN e.lo ELSE e.hi)
    [] e.t = "cap" -> LangOf(e.x)
    [] e.t = "lit" -> SymsLang(e.syms)
    [] e.t \in {"bol", "eol"} -> {<<>>}

(* an unbounded repetition can never be right: every expected language is finite *)
Unbounded(e) ==
  CASE e.t \in {"cat", "alt"} -> \E i \in DOMAIN e.xs : Unbounded(e.xs[i])
    [] e.t = "rep" -> e.hi < 0 \/ Unbounded(e.x)
    [] e.t = "cap" -> Unbounded(e.x)
    [] OTHER -> FALSE

WellFormed(e) ==
  CASE e.t \in {"eps", "cls", "bol", "eol", "lit"} -> TRUE
    [] e.t \in {"cat", "alt"} -> \A i \in DOMAIN e.xs : WellFormed(e.xs[i])
    [] e.t \in {"rep", "cap"} -> WellFormed(e.x)
    [] OTHER -> FALSE

(* anchors may only stand at the two ends of the top-level concatenation *)
RECURSIVE HasLook(_)
HasLook(e) ==
  CASE e.t \in {"bol", "eol"} -> TRUE
    [] e.t \in {"cat", "alt"} -> \E i \in DOMAIN e.xs : HasLook(e.xs[i])
    [] e.t \in {"rep", "cap"} -> HasLook(e.x)
    [] OTHER -> FALSE
AnchorsOnlyAtEnds(e) ==
  IF e.t # "cat" THEN (e.t \in {"bol", "eol"} \/ ~HasLook(e))
  ELSE \A i \in DOMAIN e.xs :
         HasLook(e.xs[i]) =>
            \/ (i = 1 /\ e.xs[i].t = "bol")
            \/ (i = Len(e.xs) /\ e.xs[i].t = "eol")

(***************************************************************************)
(* Graphs                                                                  *)
(***************************************************************************)
(* edges leaving s; recorded graphs carry an adjacency index adj (nodes are numbered 0..n-1) *)
OutEdges(g, s) == IF "adj" \in DOMAIN g THEN ToSet(g.adj[s + 1])
                  ELSE {g.edges[i] : i \in {j \in DOMAIN g.edges : g.edges[j][1] = s}}

RECURSIVE RightLangF(_, _, _)
RightLangF(g, s, fuel) ==
  IF fuel = 0 THEN {}
  ELSE (IF s \in ToSet(g.finals) THEN {<<>>} ELSE {})
       \cup UNION {ConcatL(SymLang(g.syms[e[3]]), RightLangF(g, e[2], fuel - 1)) : e \in OutEdges(g, s)}
RightLang(g, s) == RightLangF(g, s, Len(g.nodes) + 1)
GraphLang(g) == RightLang(g, g.start)

(* right language over SYMBOLS: every edge label is one letter (C16) *)
RECURSIVE RightSymF(_, _, _)
RightSymF(g, s, fuel) ==
  IF fuel = 0 THEN {}
  ELSE (IF s \in ToSet(g.finals) THEN {<<>>} ELSE {})
       \cup UNION {{<<e[3]>> \o w : w \in RightSymF(g, e[2], fuel - 1)} : e \in OutEdges(g, s)}
RightSym(g, s) == RightSymF(g, s, Len(g.nodes) + 1)

RECURSIVE ReachF(_, _, _)
ReachF(g, S, fuel) ==
  LET N == S \cup UNION {{e[2] : e \in OutEdges(g, s)} : s \in S}
  IN IF N = S \/ fuel = 0 THEN S ELSE ReachF(g, N, fuel - 1)
Reachable(g) == ReachF(g, {g.start}, Len(g.nodes) + 1)

(* acyclic: the nodes can be peeled off leaves first (a node all of whose successors are gone) *)
RECURSIVE Peel(_, _)
Peel(g, R) ==
  LET leaves == {n \in R : \A e \in OutEdges(g, n) : e[2] \notin R} IN
  IF leaves = {} THEN R = {} ELSE Peel(g, R \ leaves)
Acyclic(g) == Peel(g, ToSet(g.nodes))

DeterministicSym(g) ==
  \A i, j \in DOMAIN g.edges :
     (i # j /\ g.edges[i][1] = g.edges[j][1]) => g.edges[i][3] # g.edges[j][3]

(* For a deterministic acyclic graph two states have the same right language (over symbols) iff  *)
(* their unfolded signatures <<final, {<<symbol, signature of the target>>}>> are equal.          *)
RECURSIVE SigF(_, _, _)
SigF(g, s, fuel) ==
  IF fuel = 0 THEN <<FALSE, {}>>
  ELSE <<s \in ToSet(g.finals), {<<e[3], SigF(g, e[2], fuel - 1)>> : e \in OutEdges(g, s)}>>
MinimalSym(g) ==
  LET N == ToSet(g.nodes)
      Sig == [s \in N |-> SigF(g, s, Len(g.nodes) + 1)]
  IN /\ Reachable(g) = N
     /\ \A s, t \in N : s # t => Sig[s] # Sig[t]
(* the same, by explicit right languages (used to cross-check SigF in MC_Lang) *)
MinimalSymByLang(g) ==
  LET N == ToSet(g.nodes)
      RL == [s \in N |-> RightSym(g, s)]
  IN /\ Reachable(g) = N
     /\ \A s, t \in N : s # t => RL[s] # RL[t]

(***************************************************************************)
(* SYMBOLIC semantics: languages compared without enumerating their words. *)
(* A language descriptor is  [g |-> graph or NoGraph, k |-> K]  where K is *)
(* a set of CONTINUATIONS; a continuation is a sequence of AST elements    *)
(* (the ASTs above plus [t |-> "node", s |-> state of g]) read as their    *)
(* concatenation, and K denotes the union.  PD is the Antimirov partial    *)
(* derivative by one atom; two descriptors are equal iff the pairs of      *)
(* derivative sets reachable from them agree on nullability.  The number   *)
(* of reachable pairs is small even when the language has millions of      *)
(* words, so class-converted runs are decided exactly.  (Cross-checked     *)
(* against the explicit-set semantics LangOf in MC_Lang.)                  *)
(***************************************************************************)
NoGraph == [start |-> 0, finals |-> <<>>, nodes |-> <<>>, edges |-> <<>>, syms |-> <<>>]

RECURSIVE SymAst(_)
SymAst(sym) ==
  LET body == IF sym.nest = <<>>
              THEN [t |-> "cat", xs |-> [i \in DOMAIN sym.u |-> [t |-> "cls", s |-> sym.u[i]]]]
              ELSE [t |-> "cat", xs |-> [i \in DOMAIN sym.nest |-> SymAst(sym.nest[i])]]
  IN IF sym.lo = 1 /\ sym.hi = 1 THEN body
     ELSE [t |-> "rep", x |-> body, lo |-> sym.lo, hi |-> sym.hi, g |-> TRUE]
(* the unit (chars) reading of a symbol, ignoring its nested re-factoring *)
UnitAst(sym) == [t |-> "cat", xs |-> [i \in DOMAIN sym.u |-> [t |-> "cls", s |-> sym.u[i]]]]
SymsAst(syms) == [t |-> "cat", xs |-> [i \in DOMAIN syms |-> SymAst(syms[i])]]
ClustersAst(cl) == [t |-> "alt", xs |-> [i \in DOMAIN cl |-> SymsAst(cl[i])]]

RECURSIVE Nullable(_, _)
Nullable(g, e) ==
  CASE e.t \in {"eps", "bol", "eol"} -> TRUE
    [] e.t = "cls" -> FALSE
    [] e.t = "cat" -> \A i \in DOMAIN e.xs : Nullable(g, e.xs[i])
    [] e.t = "alt" -> \E i \in DOMAIN e.xs : Nullable(g, e.xs[i])
    [] e.t = "rep" -> e.lo = 0 \/ Nullable(g, e.x)
    [] e.t = "cap" -> Nullable(g, e.x)
    [] e.t = "lit" -> \A i \in DOMAIN e.syms : Nullable(g, SymAst(e.syms[i]))
    [] e.t = "node" -> e.s \in ToSet(g.finals)

RECURSIVE PDe(_, _, _), PDs(_, _, _)
(* partial derivative of ONE element: a set of continuations *)
PDe(g, a, e) ==
  CASE e.t \in {"eps", "bol", "eol"} -> {}
    [] e.t = "cls" -> IF a \in ToSet(e.s) THEN {<<>>} ELSE {}
    [] e.t = "cat" -> PDs(g, a, e.xs)
    [] e.t = "alt" -> UNION {PDe(g, a, e.xs[i]) : i \in DOMAIN e.xs}
    [] e.t = "cap" -> PDe(g, a, e.x)
    [] e.t = "lit" -> PDs(g, a, [i \in DOMAIN e.syms |-> SymAst(e.syms[i])])
    [] e.t = "rep" ->
         IF e.hi = 0 THEN {}
         ELSE LET lo2 == IF e.lo > 0 /\ ~Nullable(g, e.x) THEN e.lo - 1 ELSE 0
                  hi2 == IF e.hi < 0 THEN e.hi ELSE e.hi - 1
                  rest == IF hi2 = 0 THEN <<>>
                          ELSE <<[t |-> "rep", x |-> e.x, lo |-> lo2, hi |-> hi2, g |-> e.g]>>
              IN {k \o rest : k \in PDe(g, a, e.x)}
    [] e.t = "node" ->
         UNION {{k \o <<[t |-> "node", s |-> ed[2]]>> : k \in PDe(g, a, SymAst(g.syms[ed[3]]))}
                : ed \in OutEdges(g, e.s)}
(* partial derivative of a continuation *)
PDs(g, a, seq) ==
  IF seq = <<>> THEN {}
  ELSE {k \o Tail(seq) : k \in PDe(g, a, Head(seq))}
       \cup (IF Nullable(g, Head(seq)) THEN PDs(g, a, Tail(seq)) ELSE {})

StepK(g, a, K) == UNION {PDs(g, a, k) : k \in K}

(* atoms that can begin a word of an element / continuation / continuation set *)
RECURSIVE FirstE(_, _), FirstS(_, _)
FirstE(g, e) ==
  CASE e.t \in {"eps", "bol", "eol"} -> {}
    [] e.t = "cls" -> ToSet(e.s)
    [] e.t = "cat" -> FirstS(g, e.xs)
    [] e.t = "alt" -> UNION {FirstE(g, e.xs[i]) : i \in DOMAIN e.xs}
    [] e.t = "cap" -> FirstE(g, e.x)
    [] e.t = "lit" -> FirstS(g, [i \in DOMAIN e.syms |-> SymAst(e.syms[i])])
    [] e.t = "rep" -> IF e.hi = 0 THEN {} ELSE FirstE(g, e.x)
    [] e.t = "node" -> UNION {FirstE(g, SymAst(g.syms[ed[3]])) : ed \in OutEdges(g, e.s)}
FirstS(g, seq) ==
  IF seq = <<>> THEN {}
  ELSE FirstE(g, Head(seq)) \cup (IF Nullable(g, Head(seq)) THEN FirstS(g, Tail(seq)) ELSE {})
FirstK(g, K) == UNION {FirstS(g, k) : k \in K}
NullK(g, K) == \E k \in K : \A i \in DOMAIN k : Nullable(g, k[i])

DescAst(e)      == [g |-> NoGraph, k |-> {<<e>>}]
DescGraph(gr)   == [g |-> gr, k |-> {<<[t |-> "node", s |-> gr.start]>>}]
DescNode(gr, s) == [g |-> gr, k |-> {<<[t |-> "node", s |-> s]>>}]

(* does the word (sequence of atoms) belong to the language? *)
RECURSIVE AcceptsFrom(_, _, _, _)
AcceptsFrom(g, K, w, i) ==
  IF K = {} THEN FALSE
  ELSE IF i > Len(w) THEN NullK(g, K)
  ELSE AcceptsFrom(g, StepK(g, w[i], K), w, i + 1)
Accepts(D, w) == AcceptsFrom(D.g, D.k, w, 1)
HasEps(D) == NullK(D.g, D.k)

(* A continuation set is LIVE if some word is accepted from it (not needed for equality: two    *)
(* languages are equal iff all reachable pairs of derivative sets agree on nullability).         *)
RECURSIVE LiveNode(_, _, _)
LiveNode(g, s, fuel) ==
  IF fuel = 0 THEN FALSE
  ELSE s \in ToSet(g.finals) \/ \E ed \in OutEdges(g, s) : LiveNode(g, ed[2], fuel - 1)
LiveK(g, K) ==
  \E k \in K : \A i \in DOMAIN k : (k[i].t = "node" => LiveNode(g, k[i].s, Len(g.nodes) + 1))

(* Equality of two descriptors over the atoms 1..n.  With modEps the empty word is ignored.     *)
RECURSIVE EqGo(_, _, _, _, _)
EqGo(g1, g2, n, front, seen) ==
  IF front = {} THEN TRUE
  ELSE LET next == UNION {{<<StepK(g1, a, p[1]), StepK(g2, a, p[2])>> :
                               a \in FirstK(g1, p[1]) \cup FirstK(g2, p[2])} : p \in front}
           fresh == {p \in next : p \notin seen /\ ~(p[1] = {} /\ p[2] = {})}
       IN /\ \A p \in fresh : NullK(g1, p[1]) = NullK(g2, p[2])
          /\ EqGo(g1, g2, n, fresh, seen \cup fresh)
EqD(D1, D2, n, modEps) ==
  LET root == <<D1.k, D2.k>> IN
  /\ (modEps \/ NullK(D1.g, D1.k) = NullK(D2.g, D2.k))
  /\ EqGo(D1.g, D2.g, n, {root}, {root})

RECURSIVE TrimAst(_)
TrimAst(e) ==
  CASE e.t \in {"eps", "bol", "eol"} -> TRUE
    [] e.t = "cls" -> e.s # <<>>
    [] e.t \in {"cat"} -> \A i \in DOMAIN e.xs : TrimAst(e.xs[i])
    [] e.t = "alt" -> e.xs # <<>> /\ \A i \in DOMAIN e.xs : TrimAst(e.xs[i])
    [] e.t = "rep" -> (e.hi < 0 \/ e.hi >= e.lo) /\ TrimAst(e.x)
    [] e.t = "cap" -> TrimAst(e.x)
    [] e.t = "lit" -> \A i \in DOMAIN e.syms : TrimAst(SymAst(e.syms[i]))
    [] OTHER -> FALSE

(***************************************************************************)
(* Ordered semantics of the regex crate: leftmost-first, greedy.           *)
(* Ends(e, w, i) is the sequence of end offsets of matches of e starting   *)
(* at offset i (0-based) of word w, in the engine's order of preference.   *)
(***************************************************************************)
FlatMap(seq, F(_)) ==
  LET RECURSIVE go(_)
      go(i) == IF i > Len(seq) THEN <<>> ELSE F(seq[i]) \o go(i + 1)
  IN go(1)

RECURSIVE Ends(_, _, _), CatEnds(_, _, _), AltEnds(_, _, _), RepEnds(_, _, _, _, _, _)
Ends(e, w, i) ==
  CASE e.t = "eps" -> <<i>>
    [] e.t = "cls" -> IF i < Len(w) /\ w[i + 1] \in ToSet(e.s) THEN <<i + 1>> ELSE <<>>
    [] e.t = "bol" -> IF i = 0 THEN <<i>> ELSE <<>>
    [] e.t = "eol" -> IF i = Len(w) THEN <<i>> ELSE <<>>
    [] e.t = "cap" -> Ends(e.x, w, i)
    [] e.t = "lit" -> CatEnds([k \in DOMAIN e.syms |-> SymAst(e.syms[k])], w, <<i>>)
    [] e.t = "alt" -> AltEnds(e.xs, w, i)
    [] e.t = "cat" -> CatEnds(e.xs, w, <<i>>)
    [] e.t = "rep" -> RepEnds(e.x, e.lo, e.hi, e.g, w, i)
AltEnds(xs, w, i) == IF xs = <<>> THEN <<>> ELSE Ends(Head(xs), w, i) \o AltEnds(Tail(xs), w, i)
CatEnds(xs, w, starts) ==
  IF xs = <<>> THEN starts
  ELSE CatEnds(Tail(xs), w, FlatMap(starts, LAMBDA j : Ends(Head(xs), w, j)))
RepEnds(x, lo, hi, greedy, w, i) ==
  IF hi = 0 THEN <<i>>
  ELSE LET once == Ends(x, w, i)
           prog == IF hi < 0 THEN SelectSeq(once, LAMBDA j : j > i) ELSE once
           more == FlatMap(prog, LAMBDA j : RepEnds(x, MaxOf(lo - 1, 0), IF hi < 0 THEN hi ELSE hi - 1, greedy, w, j))
       IN IF lo > 0 THEN more
          ELSE IF greedy THEN more \o <<i>> ELSE <<i>> \o more

RECURSIVE FindFrom(_, _, _)
FindFrom(e, w, i) ==
  IF i > Len(w) THEN <<-1, -1>>
  ELSE LET es == Ends(e, w, i) IN
       IF es # <<>> THEN <<i, Head(es)>> ELSE FindFrom(e, w, i + 1)
Find(e, w) == FindFrom(e, w, 0)
=============================================================================

-------------------------------- MODULE Lang --------------------------------
(***************************************************************************)
(* The language algebra that gives every artefact of grex's pipeline its   *)
(* meaning.  Words are sequences of atoms (abstract characters, see        *)
(* DESIGN.md 4.3); every stage artefact denotes a FINITE set of words:     *)
(*   - a symbol    [u, lo, hi, nest]   (src/grapheme.rs Grapheme)          *)
(*   - a cluster   sequence of symbols (src/cluster.rs GraphemeCluster)    *)
(*   - a graph     [start, finals, nodes, edges, syms]  (src/dfa.rs)       *)
(*   - an AST      eps | cls | cat | alt | rep | cap | bol | eol | lit     *)
(*                 (src/expression.rs, and the regex crate's HIR)          *)
(* plus the ORDERED (leftmost-first, greedy) semantics of the regex crate  *)
(* used by the anchor property C08.                                        *)
(***************************************************************************)
EXTENDS Naturals, Integers, Sequences, FiniteSets

ToSet(seq) == {seq[i] : i \in DOMAIN seq}

MaxOf(a, b) == IF a >= b THEN a ELSE b
MinOf(a, b) == IF a <= b THEN a ELSE b

ConcatL(A, B) == {x \o y : x \in A, y \in B}

RECURSIVE PowL(_, _)
PowL(L, n) == IF n = 0 THEN {<<>>} ELSE ConcatL(L, PowL(L, n - 1))

RangeL(L, lo, hi) == UNION {PowL(L, k) : k \in lo .. hi}

(* product of a sequence of atom SETS *)
RECURSIVE ProdS(_)
ProdS(sets) == IF sets = <<>> THEN {<<>>}
               ELSE {<<a>> \o w : a \in Head(sets), w \in ProdS(Tail(sets))}

(* product of a sequence of atom SEQUENCES (as they arrive from JSON) *)
ProdQ(seqs) == ProdS([i \in DOMAIN seqs |-> ToSet(seqs[i])])

(***************************************************************************)
(* Symbols and clusters                                                    *)
(***************************************************************************)
RECURSIVE SymLang(_), SymsLang(_), NestOk(_)
UnitLang(sym) == ProdQ(sym.u)
BodyLang(sym) == IF sym.nest = <<>> THEN UnitLang(sym) ELSE SymsLang(sym.nest)
SymLang(sym)  == RangeL(BodyLang(sym), sym.lo, sym.hi)
SymsLang(syms) == IF syms = <<>> THEN {<<>>}
                  ELSE ConcatL(SymLang(Head(syms)), SymsLang(Tail(syms)))
(* the nested re-factoring of a repeated unit must denote the unit itself *)
NestOk(sym) == \/ sym.nest = <<>>
               \/ /\ SymsLang(sym.nest) = UnitLang(sym)
                  /\ \A i \in DOMAIN sym.nest : NestOk(sym.nest[i])

SymDepthOk(sym, P(_)) ==
  LET RECURSIVE go(_)
      go(s) == P(s) /\ \A i \in DOMAIN s.nest : go(s.nest[i])
  IN go(sym)

(***************************************************************************)
(* Regex ASTs (set semantics = language matched in full)                   *)
(***************************************************************************)
RECURSIVE LangOf(_), CatLang(_), Unbounded(_), WellFormed(_)
CatLang(xs) == IF xs = <<>> THEN {<<>>} ELSE ConcatL(LangOf(Head(xs)), CatLang(Tail(xs)))
LangOf(e) ==
  CASE e.t = "eps" -> {<<>>}
    [] e.t = "cls" -> {<<a>> : a \in ToSet(e.s)}
    [] e.t = "cat" -> CatLang(e.xs)
    [] e.t = "alt" -> UNION {LangOf(e.xs[i]) : i \in DOMAIN e.xs}
    [] e.t = "rep" -> RangeL(LangOf(e.x), e.lo, IF e.hi < 0 THEN e.lo ELSE e.hi)
    [] e.t = "cap" -> LangOf(e.x)
    [] e.t = "lit" -> SymsLang(e.syms)
    [] e.t \in {"bol", "eol"} -> {<<>>}

(* an unbounded repetition can never be right: every expected language is finite *)
Unbounded(e) ==
  CASE e.t \in {"cat", "alt"} -> \E i \in DOMAIN e.xs : Unbounded(e.xs[i])
    [] e.t = "rep" -> e.hi < 0 \/ Unbounded(e.x)
    [] e.t = "cap" -> Unbounded(e.x)
    [] OTHER -> FALSE

WellFormed(e) ==
  CASE e.t \in {"eps", "cls", "bol", "eol", "lit"} -> TRUE
    [] e.t \in {"cat", "alt"} -> \A i \in DOMAIN e.xs : WellFormed(e.xs[i])
    [] e.t \in {"rep", "cap"} -> WellFormed(e.x)
    [] OTHER -> FALSE

(* anchors may only stand at the two ends of the top-level concatenation *)
RECURSIVE HasLook(_)
HasLook(e) ==
  CASE e.t \in {"bol", "eol"} -> TRUE
    [] e.t \in {"cat", "alt"} -> \E i \in DOMAIN e.xs : HasLook(e.xs[i])
    [] e.t \in {"rep", "cap"} -> HasLook(e.x)
    [] OTHER -> FALSE
AnchorsOnlyAtEnds(e) ==
  IF e.t # "cat" THEN (e.t \in {"bol", "eol"} \/ ~HasLook(e))
  ELSE \A i \in DOMAIN e.xs :
         HasLook(e.xs[i]) =>
            \/ (i = 1 /\ e.xs[i].t = "bol")
            \/ (i = Len(e.xs) /\ e.xs[i].t = "eol")

(***************************************************************************)
(* Graphs                                                                  *)
(***************************************************************************)
OutEdges(g, s) == {g.edges[i] : i \in {j \in DOMAIN g.edges : g.edges[j][1] = s}}

RECURSIVE RightLangF(_, _, _)
RightLangF(g, s, fuel) ==
  IF fuel = 0 THEN {}
  ELSE (IF s \in ToSet(g.finals) THEN {<<>>} ELSE {})
       \cup UNION {ConcatL(SymLang(g.syms[e[3]]), RightLangF(g, e[2], fuel - 1)) : e \in OutEdges(g, s)}
RightLang(g, s) == RightLangF(g, s, Len(g.nodes) + 1)
GraphLang(g) == RightLang(g, g.start)

(* right language over SYMBOLS: every edge label is one letter (C16) *)
RECURSIVE RightSymF(_, _, _)
RightSymF(g, s, fuel) ==
  IF fuel = 0 THEN {}
  ELSE (IF s \in ToSet(g.finals) THEN {<<>>} ELSE {})
       \cup UNION {{<<e[3]>> \o w : w \in RightSymF(g, e[2], fuel - 1)} : e \in OutEdges(g, s)}
RightSym(g, s) == RightSymF(g, s, Len(g.nodes) + 1)

RECURSIVE ReachF(_, _, _)
ReachF(g, S, fuel) ==
  LET N == S \cup {e[2] : e \in {g.edges[i] : i \in {j \in DOMAIN g.edges : g.edges[j][1] \in S}}}
  IN IF N = S \/ fuel = 0 THEN S ELSE ReachF(g, N, fuel - 1)
Reachable(g) == ReachF(g, {g.start}, Len(g.nodes) + 1)

(* no path longer than the number of nodes: the graph is acyclic *)
RECURSIVE DepthF(_, _, _)
DepthF(g, s, fuel) ==
  IF fuel = 0 THEN 1
  ELSE LET E == OutEdges(g, s) IN
       IF E = {} THEN 0
       ELSE 1 + CHOOSE m \in {DepthF(g, e[2], fuel - 1) : e \in E} :
                    \A k \in {DepthF(g, e[2], fuel - 1) : e \in E} : m >= k
Acyclic(g) == DepthF(g, g.start, Len(g.nodes) + 1) <= Len(g.nodes)

DeterministicSym(g) ==
  \A i, j \in DOMAIN g.edges :
     (i # j /\ g.edges[i][1] = g.edges[j][1]) => g.edges[i][3] # g.edges[j][3]

MinimalSym(g) ==
  LET N == ToSet(g.nodes)
      RL == [s \in N |-> RightSym(g, s)]
  IN /\ Reachable(g) = N
     /\ \A s, t \in N : s # t => RL[s] # RL[t]

(***************************************************************************)
(* Ordered semantics of the regex crate: leftmost-first, greedy.           *)
(* Ends(e, w, i) is the sequence of end offsets of matches of e starting   *)
(* at offset i (0-based) of word w, in the engine's order of preference.   *)
(***************************************************************************)
FlatMap(seq, F(_)) ==
  LET RECURSIVE go(_)
      go(i) == IF i > Len(seq) THEN <<>> ELSE F(seq[i]) \o go(i + 1)
  IN go(1)

RECURSIVE Ends(_, _, _), CatEnds(_, _, _), AltEnds(_, _, _), RepEnds(_, _, _, _, _, _)
Ends(e, w, i) ==
  CASE e.t = "eps" -> <<i>>
    [] e.t = "cls" -> IF i < Len(w) /\ w[i + 1] \in ToSet(e.s) THEN <<i + 1>> ELSE <<>>
    [] e.t = "bol" -> IF i = 0 THEN <<i>> ELSE <<>>
    [] e.t = "eol" -> IF i = Len(w) THEN <<i>> ELSE <<>>
    [] e.t = "cap" -> Ends(e.x, w, i)
    [] e.t = "alt" -> AltEnds(e.xs, w, i)
    [] e.t = "cat" -> CatEnds(e.xs, w, <<i>>)
    [] e.t = "rep" -> RepEnds(e.x, e.lo, e.hi, e.g, w, i)
AltEnds(xs, w, i) == IF xs = <<>> THEN <<>> ELSE Ends(Head(xs), w, i) \o AltEnds(Tail(xs), w, i)
CatEnds(xs, w, starts) ==
  IF xs = <<>> THEN starts
  ELSE CatEnds(Tail(xs), w, FlatMap(starts, LAMBDA j : Ends(Head(xs), w, j)))
RepEnds(x, lo, hi, greedy, w, i) ==
  IF hi = 0 THEN <<i>>
  ELSE LET once == Ends(x, w, i)
           prog == IF hi < 0 THEN SelectSeq(once, LAMBDA j : j > i) ELSE once
           more == FlatMap(prog, LAMBDA j : RepEnds(x, MaxOf(lo - 1, 0), IF hi < 0 THEN hi ELSE hi - 1, greedy, w, j))
       IN IF lo > 0 THEN more
          ELSE IF greedy THEN more \o <<i>> ELSE <<i>> \o more

RECURSIVE FindFrom(_, _, _)
FindFrom(e, w, i) ==
  IF i > Len(w) THEN <<-1, -1>>
  ELSE LET es == Ends(e, w, i) IN
       IF es # <<>> THEN <<i, Head(es)>> ELSE FindFrom(e, w, i + 1)
Find(e, w) == FindFrom(e, w, 0)
=============================================================================

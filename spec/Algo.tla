-------------------------------- MODULE Algo --------------------------------
(***************************************************************************)
(* Level 2 of the specification: the ALGORITHMS of grex transcribed from   *)
(* the code, stage by stage, as TLA+ operators over the same artefacts as  *)
(* Level 1 (symbols, clusters, graphs, expressions).  The bounded models   *)
(* (MC_*.tla) run them as actions and check the Level-1 post-conditions of *)
(* Grex.tla on their results; the trace specification uses them to tell    *)
(* whether a recorded artefact is the one the transcription computes (and  *)
(* therefore whether a language deviation is one of the NAMED, known       *)
(* deviations of the code from the design).                                *)
(*                                                                         *)
(* Deviations of the code from the intended design are switchable:         *)
(*   Dev.widen      trie insertion widens (v,m,n)+(v,n+1) to (v,m,n+1)     *)
(*                  and thereby shares the continuation  (src/dfa.rs)      *)
(*   Dev.finals     the minimised automaton's final states are re-derived  *)
(*                  from edge targets only (the start state is never one)  *)
(* AsBuilt enables both; Design disables both.                             *)
(***************************************************************************)
EXTENDS Grex, SequencesExt, FiniteSetsExt

AsBuilt == [widen |-> TRUE, finals |-> TRUE]
Design  == [widen |-> FALSE, finals |-> FALSE]

(***************************************************************************)
(* S6  src/dfa.rs insert / find_next_state / add_new_state                 *)
(* gr = [n, es, fin]: node count, edges <<[s, d, sym]>> in insertion order,*)
(* final nodes.  Node 0 is the initial state.                              *)
(***************************************************************************)
EmptyGr == [n |-> 1, es |-> <<>>, fin |-> {}]

(* indices of the edges leaving s, most recently added first (petgraph adjacency order) *)
RECURSIVE DescSeq(_)
DescSeq(S) == IF S = {} THEN <<>> ELSE LET m == Max(S) IN <<m>> \o DescSeq(S \ {m})
NbrIdx(gr, s) == DescSeq({i \in DOMAIN gr.es : gr.es[i].s = s})

(* find_next_state: returns [found, gr, d] *)
RECURSIVE FindNext(_, _, _, _)
FindNext(gr, idxs, sym, dev) ==
  IF idxs = <<>> THEN [found |-> FALSE, gr |-> gr, d |-> 0]
  ELSE LET i == Head(idxs)
           e == gr.es[i] IN
       IF e.sym.u # sym.u THEN FindNext(gr, Tail(idxs), sym, dev)
       ELSE IF dev.widen /\ e.sym.hi = sym.hi - 1
            THEN LET w == [u |-> sym.u, lo |-> MinOf(e.sym.lo, sym.lo), hi |-> MaxOf(e.sym.hi, sym.hi),
                           nest |-> <<>>]
                 IN [found |-> TRUE, gr |-> [gr EXCEPT !.es[i].sym = w], d |-> e.d]
            ELSE IF e.sym.hi = sym.hi /\ (dev.widen \/ e.sym.lo = sym.lo)
                 THEN [found |-> TRUE, gr |-> gr, d |-> e.d]
                 ELSE FindNext(gr, Tail(idxs), sym, dev)

RECURSIVE InsertFrom(_, _, _, _, _)
InsertFrom(gr, cluster, cur, k, dev) ==
  IF k > Len(cluster) THEN [gr EXCEPT !.fin = @ \cup {cur}]
  ELSE LET f == FindNext(gr, NbrIdx(gr, cur), cluster[k], dev) IN
       IF f.found THEN InsertFrom(f.gr, cluster, f.d, k + 1, dev)
       ELSE InsertFrom([gr EXCEPT !.n = @ + 1,
                                  !.es = Append(@, [s |-> cur, d |-> gr.n, sym |-> cluster[k]])],
                       cluster, gr.n, k + 1, dev)
InsertCluster(gr, cluster, dev) == InsertFrom(gr, cluster, 0, 1, dev)

RECURSIVE BuildTrieFrom(_, _, _)
BuildTrieFrom(gr, clusters, dev) ==
  IF clusters = <<>> THEN gr
  ELSE BuildTrieFrom(InsertCluster(gr, Head(clusters), dev), Tail(clusters), dev)
BuildTrie(clusters, dev) == BuildTrieFrom(EmptyGr, clusters, dev)

(* view of gr as a Lang graph *)
AsGraph(gr, start) ==
  [start |-> start,
   finals |-> SetToSeq(gr.fin),
   nodes |-> [i \in 1 .. gr.n |-> i - 1],
   edges |-> [i \in DOMAIN gr.es |-> <<gr.es[i].s, gr.es[i].d, i>>],
   syms |-> [i \in DOMAIN gr.es |-> gr.es[i].sym],
   adj |-> [n \in 1 .. gr.n |-> SetToSeq({<<gr.es[i].s, gr.es[i].d, i>> : i \in {j \in DOMAIN gr.es : gr.es[j].s = n - 1}})]]

TrieLang(clusters, dev) == GraphLang(AsGraph(BuildTrie(clusters, dev), 0))
=============================================================================

-------------------------------- MODULE Algo --------------------------------
(***************************************************************************)
(* Level 2 of the specification: the ALGORITHMS of grex transcribed from   *)
(* the code, stage by stage, as TLA+ operators over the same artefacts as  *)
(* Level 1 (symbols, clusters, graphs, expressions).  The bounded models   *)
(* (MC_*.tla) run them as actions and check the Level-1 post-conditions of *)
(* Grex.tla on their results; the trace specification uses them to tell    *)
(* whether a recorded artefact is the one the transcription computes (and  *)
(* therefore whether a language deviation is one of the NAMED, known       *)
(* deviations of the code from the design).                                *)
(*                                                                         *)
(* Deviations of the code from the intended design are switchable:         *)
(*   Dev.widen      trie insertion widens (v,m,n)+(v,n+1) to (v,m,n+1)     *)
(*                  and thereby shares the continuation  (src/dfa.rs)      *)
(*   Dev.finals     the minimised automaton's final states are re-derived  *)
(*                  from edge targets only (the start state is never one)  *)
(* AsBuilt enables both; Design disables both.                             *)
(***************************************************************************)
EXTENDS Grex, SequencesExt, FiniteSetsExt

AsBuilt == [widen |-> TRUE, finals |-> TRUE]
Design  == [widen |-> FALSE, finals |-> FALSE]

(***************************************************************************)
(* S6  src/dfa.rs insert / find_next_state / add_new_state                 *)
(* gr = [n, es, fin]: node count, edges <<[s, d, sym]>> in insertion order,*)
(* final nodes.  Node 0 is the initial state.                              *)
(***************************************************************************)
(* alpha: every symbol ever inserted (the code's `alphabet`, which keeps the labels as they were BEFORE widening) *)
EmptyGr == [n |-> 1, es |-> <<>>, fin |-> {}, alpha |-> {}]

(* indices of the edges leaving s, most recently added first (petgraph adjacency order) *)
RECURSIVE DescSeq(_)
DescSeq(S) == IF S = {} THEN <<>> ELSE LET m == Max(S) IN <<m>> \o DescSeq(S \ {m})
NbrIdx(gr, s) == DescSeq({i \in DOMAIN gr.es : gr.es[i].s = s})

(* A symbol's IDENTITY is the text of its label (src/grapheme.rs chars), its DENOTATION the field u.  In plain runs  *)
(* the two coincide; under (?i) and class conversion different labels may denote the same sets (s / long s, final / *)
(* non-final sigma, an upper-case letter the engine cannot fold), and the harness then records the label as k.      *)
Val(sym) == IF "k" \in DOMAIN sym THEN <<sym.k>> ELSE sym.u
WithK(r, sym) == IF "k" \in DOMAIN sym THEN [u |-> r.u, lo |-> r.lo, hi |-> r.hi, nest |-> r.nest, k |-> sym.k] ELSE r
(* find_next_state: returns [found, gr, d] *)
RECURSIVE FindNext(_, _, _, _)
FindNext(gr, idxs, sym, dev) ==
  IF idxs = <<>> THEN [found |-> FALSE, gr |-> gr, d |-> 0]
  ELSE LET i == Head(idxs)
           e == gr.es[i] IN
       IF Val(e.sym) # Val(sym) THEN FindNext(gr, Tail(idxs), sym, dev)
       ELSE IF dev.widen /\ e.sym.hi = sym.hi - 1
            THEN LET w == WithK([u |-> sym.u, lo |-> MinOf(e.sym.lo, sym.lo), hi |-> MaxOf(e.sym.hi, sym.hi),
                                 nest |-> <<>>], sym)
                 IN [found |-> TRUE, gr |-> [gr EXCEPT !.es[i].sym = w], d |-> e.d]
            ELSE IF e.sym.hi = sym.hi /\ (dev.widen \/ e.sym.lo = sym.lo)
                 THEN [found |-> TRUE, gr |-> gr, d |-> e.d]
                 ELSE FindNext(gr, Tail(idxs), sym, dev)

RECURSIVE InsertFrom(_, _, _, _, _)
InsertFrom(gr, cluster, cur, k, dev) ==
  IF k > Len(cluster) THEN [gr EXCEPT !.fin = @ \cup {cur}]
  ELSE LET gra == [gr EXCEPT !.alpha = @ \cup {cluster[k]}]
           f == FindNext(gra, NbrIdx(gra, cur), cluster[k], dev) IN
       IF f.found THEN InsertFrom(f.gr, cluster, f.d, k + 1, dev)
       ELSE InsertFrom([gra EXCEPT !.n = @ + 1,
                                   !.es = Append(@, [s |-> cur, d |-> gr.n, sym |-> cluster[k]])],
                       cluster, gr.n, k + 1, dev)
InsertCluster(gr, cluster, dev) == InsertFrom(gr, cluster, 0, 1, dev)

RECURSIVE BuildTrieFrom(_, _, _)
BuildTrieFrom(gr, clusters, dev) ==
  IF clusters = <<>> THEN gr
  ELSE BuildTrieFrom(InsertCluster(gr, Head(clusters), dev), Tail(clusters), dev)
BuildTrie(clusters, dev) == BuildTrieFrom(EmptyGr, clusters, dev)

(* view of gr as a Lang graph *)
AsGraph(gr, start) ==
  [start |-> start,
   finals |-> SetToSeq(gr.fin),
   nodes |-> [i \in 1 .. gr.n |-> i - 1],
   edges |-> [i \in DOMAIN gr.es |-> <<gr.es[i].s, gr.es[i].d, i>>],
   syms |-> [i \in DOMAIN gr.es |-> gr.es[i].sym],
   adj |-> [n \in 1 .. gr.n |-> SetToSeq({<<gr.es[i].s, gr.es[i].d, i>> : i \in {j \in DOMAIN gr.es : gr.es[j].s = n - 1}})]]

TrieLang(clusters, dev) == GraphLang(AsGraph(BuildTrie(clusters, dev), 0))

(***************************************************************************)
(* S2  src/regexp.rs sort: by (byte length, lexicographic).  In the        *)
(* bounded models a test case is a sequence of atoms whose ids follow code *)
(* point order and which are all one byte long.                            *)
(***************************************************************************)
RECURSIVE LexLess(_, _)
LexLess(x, y) == IF x = <<>> THEN y # <<>> ELSE IF y = <<>> THEN FALSE
                 ELSE IF Head(x) # Head(y) THEN Head(x) < Head(y) ELSE LexLess(Tail(x), Tail(y))
(* atoms 1..6 stand for a..f (one byte each), 7 for a two-byte BMP character (e acute), 8 for an astral one     *)
(* (four bytes); atom order = code point order.  9, 10, 11 are 7 and 8 AFTER escaping (see EscAtom below).      *)
AtomBytes(a) == CASE a = 7 -> 2 [] a = 8 -> 4 [] OTHER -> 1
RECURSIVE WBytes(_)
WBytes(w) == IF w = <<>> THEN 0 ELSE AtomBytes(Head(w)) + WBytes(Tail(w))
TcLess(x, y) == IF WBytes(x) # WBytes(y) THEN WBytes(x) < WBytes(y) ELSE LexLess(x, y)
SortTcs(T) == SortSeq(SetToSeq(T), TcLess)

(***************************************************************************)
(* S3  src/cluster.rs GraphemeCluster::from: the test case is cut into      *)
(* extended grapheme clusters (oracle: the segmentation tables, cell        *)
(* attribute gb = "a cluster starts here"); a cluster of several characters *)
(* is kept as ONE symbol unless it contains a backslash (bs) or a character *)
(* of general category Mark / Other (sp) - then every character becomes its *)
(* own symbol.  Result: the sequence of symbol lengths.                     *)
(***************************************************************************)
ClusterEnds(w) == {i \in DOMAIN w : i = Len(w) \/ w[i + 1].gb}
RECURSIVE SegFrom(_, _)
SegFrom(w, i) ==
  IF i > Len(w) THEN <<>>
  ELSE LET j == Min({e \in ClusterEnds(w) : e >= i})
           n == j - i + 1
           split == (n >= 2 /\ \E x \in i .. j : w[x].bs) \/ (\E x \in i .. j : w[x].sp)
       IN (IF split /\ n >= 2 THEN [x \in 1 .. n |-> 1] ELSE <<n>>) \o SegFrom(w, j + 1)
SegmentLens(w) == SegFrom(w, 1)
(* design facts of the rule (checked in MC_Segment): a backslash and a mark never share a symbol with anything *)
SegStarts(lens) == LET RECURSIVE F(_, _) F(ls, at) == IF ls = <<>> THEN <<>> ELSE <<at>> \o F(Tail(ls), at + Head(ls)) IN F(lens, 1)

(* S3 (no class / repetition conversion): one plain symbol per character *)
PlainSym(a) == [u |-> <<<<a>>>>, lo |-> 1, hi |-> 1, nest |-> <<>>]
PlainCluster(w) == [i \in DOMAIN w |-> PlainSym(w[i])]

(***************************************************************************)
(* S5  src/cluster.rs convert_repetitions: greedy detection of repeated    *)
(* substrings, transcribed function by function.  Positions are 0-based    *)
(* and ranges half-open as in the code.  A grapheme's identity is its      *)
(* value (here: the field u).                                              *)
(***************************************************************************)
Vals(gs) == [i \in DOMAIN gs |-> gs[i].u]

(* collect_repeated_substrings: every substring of length <= n/2 with all its start positions *)
RepKeys(vals) ==
  LET n == Len(vals) IN
  {SubSeq(vals, p[1], p[1] + p[2] - 1) : p \in {q \in (1 .. n) \X (1 .. (n \div 2)) : q[1] + q[2] - 1 <= n}}
Occs(vals, k) ==
  SortSeq(SetToSeq({i - 1 : i \in {x \in 1 .. (Len(vals) - Len(k) + 1) : SubSeq(vals, x, x + Len(k) - 1) = k}}), <)
NonOverlapping(occ, len) == \A i \in 1 .. Len(occ) - 1 : occ[i + 1] - occ[i] >= len

(* adjacent occurrences are merged into one range *)
RECURSIVE MergeAdjacent(_, _, _)
MergeAdjacent(occ, len, acc) ==    \* acc: ranges so far, last one still open
  IF occ = <<>> THEN acc
  ELSE LET s == Head(occ) IN
       IF acc # <<>> /\ acc[Len(acc)][2] = s
       THEN MergeAdjacent(Tail(occ), len, [acc EXCEPT ![Len(acc)] = <<@[1], s + len>>])
       ELSE MergeAdjacent(Tail(occ), len, Append(acc, <<s, s + len>>))

(* create_ranges_of_repetitions: longest substrings first, then by first occurrence *)
KeyLess(vals, a, b) == IF Len(a) # Len(b) THEN Len(a) > Len(b) ELSE Occs(vals, a)[1] < Occs(vals, b)[1]
RECURSIVE RangesOfKeys(_, _, _)
RangesOfKeys(vals, keys, minrep) ==
  IF keys = <<>> THEN <<>>
  ELSE LET k == Head(keys)
           rs == MergeAdjacent(Occs(vals, k), Len(k), <<>>)
           keep == SelectSeq(rs, LAMBDA r : (r[2] - r[1]) \div Len(k) > minrep)
       IN [i \in DOMAIN keep |-> [s |-> keep[i][1], e |-> keep[i][2], k |-> k]] \o RangesOfKeys(vals, Tail(keys), minrep)
CreateRanges(vals, minrep) ==
  LET valid == {k \in RepKeys(vals) : NonOverlapping(Occs(vals, k), Len(k))}
  IN RangesOfKeys(vals, SortSeq(SetToSeq(valid), LAMBDA a, b : KeyLess(vals, a, b)), minrep)

(* coalesce_repetitions: stable sort by (end descending, start ascending), then drop a range that *)
(* starts or ends inside the kept one (unless it ends exactly where the kept one starts)           *)
RECURSIVE InsertRange(_, _)
InsertRange(sorted, r) ==     \* stable insertion: r goes after all elements not greater than it
  IF sorted = <<>> THEN <<r>>
  ELSE LET h == Head(sorted) IN
       IF h.e > r.e \/ (h.e = r.e /\ h.s <= r.s) THEN <<h>> \o InsertRange(Tail(sorted), r)
       ELSE <<r>> \o sorted
RECURSIVE SortRanges(_)
SortRanges(rs) == IF rs = <<>> THEN <<>> ELSE InsertRange(SortRanges(Front(rs)), Last(rs))
InRange(r, x) == r.s <= x /\ x < r.e
RECURSIVE CoalesceFrom(_, _)
CoalesceFrom(cur, rest) ==
  IF rest = <<>> THEN <<cur>>
  ELSE LET nx == Head(rest) IN
       IF (InRange(cur, nx.s) \/ InRange(cur, nx.e)) /\ nx.e # cur.s
       THEN CoalesceFrom(cur, Tail(rest))
       ELSE <<cur>> \o CoalesceFrom(nx, Tail(rest))
Coalesce(rs) == LET sr == SortRanges(rs) IN IF sr = <<>> THEN <<>> ELSE CoalesceFrom(Head(sr), Tail(sr))

RECURSIVE ConvertReps(_, _, _), Splice(_, _, _, _, _)
(* replace_graphemes_with_repetitions *)
Splice(reps, ranges, minrep, minsub, fuel) ==
  IF ranges = <<>> THEN reps
  ELSE LET r == Head(ranges) IN
       IF r.e > Len(reps) THEN reps                                  \* break
       ELSE IF Len(r.k) < minsub THEN Splice(reps, Tail(ranges), minrep, minsub, fuel)
       ELSE LET count == (r.e - r.s) \div Len(r.k)
                unit == [i \in DOMAIN r.k |-> [u |-> r.k[i], lo |-> 1, hi |-> 1, nest |-> <<>>]]
                inner == IF fuel = 0 THEN [changed |-> FALSE, gs |-> unit] ELSE ConvertReps(unit, [minrep |-> minrep, minsub |-> minsub], fuel - 1)
                flat == LET RECURSIVE Cat(_) Cat(xs) == IF xs = <<>> THEN <<>> ELSE Head(xs) \o Cat(Tail(xs)) IN Cat(r.k)
                g == [u |-> flat, lo |-> count, hi |-> count, nest |-> IF inner.changed THEN inner.gs ELSE <<>>]
            IN Splice(SubSeq(reps, 1, r.s) \o <<g>> \o SubSeq(reps, r.e + 1, Len(reps)), Tail(ranges), minrep, minsub, fuel)
(* convert_repetitions: [changed, gs] *)
ConvertReps(gs, c, fuel) ==
  LET co == Coalesce(CreateRanges(Vals(gs), c.minrep)) IN
  IF co = <<>> THEN [changed |-> FALSE, gs |-> gs]
  ELSE [changed |-> TRUE, gs |-> Splice(gs, co, c.minrep, c.minsub, fuel)]
RepConvert(cluster, c) == ConvertReps(cluster, c, 4).gs

(***************************************************************************)
(* S7  src/dfa.rs minimize: Hopcroft's refinement exactly as coded - the   *)
(* partition is a SEQUENCE of sets (its order decides the numbering of the *)
(* minimised states), the work list a queue, labels match on               *)
(* value /\ (max \/ min).                                                  *)
(***************************************************************************)
SymKey(sym) == [i \in DOMAIN sym.u |-> sym.u[i][1]]
SymLess(x, y) == IF SymKey(x) # SymKey(y) THEN LexLess(SymKey(x), SymKey(y))
                 ELSE IF x.lo # y.lo THEN x.lo < y.lo ELSE x.hi < y.hi
AlphaSeq(gr) == SortSeq(SetToSeq(gr.alpha), SymLess)

LabelMatch(e, lab) == Val(e) = Val(lab) /\ (e.hi = lab.hi \/ e.lo = lab.lo)
Parents(gr, A, lab) ==
  {gr.es[i].s : i \in {j \in DOMAIN gr.es : gr.es[j].d \in A /\ LabelMatch(gr.es[j].sym, lab)}}

RECURSIVE Refine(_, _, _, _)
Refine(P, X, start, reps) ==
  LET cand == {k \in start .. Len(P) : (X \cap P[k]) # {} /\ (P[k] \ X) # {}} IN
  IF cand = {} THEN [P |-> P, reps |-> reps]
  ELSE LET k == Min(cand)
           y == P[k]
           P2 == SubSeq(P, 1, k - 1) \o <<X \cap y, y \ X>> \o SubSeq(P, k + 1, Len(P))
       IN Refine(P2, X, k, Append(reps, <<y, X \cap y, y \ X>>))
RECURSIVE UpdW(_, _, _)
UpdW(W, reps, k) ==
  IF k > Len(reps) THEN W
  ELSE LET y == reps[k][1]
           i == reps[k][2]
           d == reps[k][3]
           pos == {j \in DOMAIN W : W[j] = y} IN
       IF pos # {}
       THEN LET j == Min(pos) IN
            UpdW(SubSeq(W, 1, j - 1) \o SubSeq(W, j + 1, Len(W)) \o <<i, d>>, reps, k + 1)
       ELSE IF Cardinality(i) <= Cardinality(d) THEN UpdW(Append(W, i), reps, k + 1)
            ELSE UpdW(Append(W, d), reps, k + 1)
RECURSIVE ForLabels(_, _, _, _, _)
ForLabels(gr, P, W, A, labs) ==
  IF labs = <<>> THEN [P |-> P, W |-> W]
  ELSE LET r == Refine(P, Parents(gr, A, Head(labs)), 1, <<>>) IN
       ForLabels(gr, r.P, UpdW(W, r.reps, 1), A, Tail(labs))
RECURSIVE Hop(_, _, _)
Hop(gr, P, W) == IF W = <<>> THEN P
                 ELSE LET r == ForLabels(gr, P, Tail(W), Head(W), AlphaSeq(gr)) IN Hop(gr, r.P, r.W)
Partition(gr) ==
  LET nonfin == (0 .. gr.n - 1) \ gr.fin
      P0 == <<nonfin, gr.fin>> IN
  SelectSeq(Hop(gr, P0, P0), LAMBDA b : b # {})

(***************************************************************************)
(* S8  src/dfa.rs recreate_graph: one state per block in sequence order,   *)
(* the smallest member represents the block, its out-edges are copied in   *)
(* adjacency order.  As built (Dev.finals) a new state is final only if it *)
(* is the TARGET of a copied edge whose old target was final.              *)
(***************************************************************************)
ClassOf(P, s) == CHOOSE k \in DOMAIN P : s \in P[k]
Recreate(gr, P, dev) ==
  LET RECURSIVE Go(_, _)
      Go(k, es) ==
        IF k > Len(P) THEN es
        ELSE LET rep == Min(P[k])
                 nb == NbrIdx(gr, rep)
                 new == [j \in DOMAIN nb |-> [s |-> k - 1, d |-> ClassOf(P, gr.es[nb[j]].d) - 1,
                                              sym |-> gr.es[nb[j]].sym]]
             IN Go(k + 1, es \o new)
      es == Go(1, <<>>)
      reps == {Min(P[k]) : k \in DOMAIN P}
      fin == IF dev.finals
             THEN {ClassOf(P, gr.es[i].d) - 1 :
                      i \in {j \in DOMAIN gr.es : gr.es[j].s \in reps /\ gr.es[j].d \in gr.fin}}
             ELSE {k - 1 : k \in {j \in DOMAIN P : P[j] \cap gr.fin # {}}}
  IN [n |-> Len(P), es |-> es, fin |-> fin, init |-> ClassOf(P, 0) - 1]
Minimize(gr, dev) == Recreate(gr, Partition(gr), dev)

(***************************************************************************)
(* S9  src/expression.rs: state elimination in depth-first order with the  *)
(* simplifying union / concatenate.  Expressions:                          *)
(*   [t |-> "none"] | lit(gs) | cc(S) | cat2(a, b) | altn(xs) | opt(x)     *)
(* where gs is a sequence of symbols and S a set of atoms.                 *)
(***************************************************************************)
XNone == [t |-> "none"]
XLit(gs) == [t |-> "lit", gs |-> gs]
XCC(S) == [t |-> "cc", s |-> S]
XCat(x, y) == [t |-> "cat2", a |-> x, b |-> y]
XAlt(xs) == [t |-> "altn", xs |-> xs]
XOpt(x) == [t |-> "opt", x |-> x]

XIsNone(e) == e.t = "none"
XIsEmpty(e) == e.t = "lit" /\ e.gs = <<>>
(* char_count(is_non_ascii_char_escaped): the length of the text as it will be written - an escaped character *)
(* counts with all the characters of its \u{...} form (always the non-surrogate form: `escape(c, false)`)      *)
AtomWidth(a) == CASE a = 9 -> 6 [] a \in {10, 11} -> 9 [] OTHER -> 1
RECURSIVE UWidth(_)
UWidth(u) == IF u = <<>> THEN 0 ELSE AtomWidth(Head(u)[1]) + UWidth(Tail(u))
RECURSIVE CharCount(_)
CharCount(gs) == IF gs = <<>> THEN 0 ELSE UWidth(Head(gs).u) + CharCount(Tail(gs))
XIsSingle(e) == \/ e.t = "cc"
                \/ (e.t = "lit" /\ e.gs # <<>> /\ CharCount(e.gs) = 1 /\ e.gs[1].hi = 1)
RECURSIVE XLen(_)
XLen(e) == CASE e.t = "altn" -> XLen(e.xs[1])
             [] e.t = "cc"   -> 1
             [] e.t = "cat2" -> XLen(e.a) + XLen(e.b)
             [] e.t = "lit"  -> Len(e.gs)
             [] e.t = "opt"  -> XLen(e.x)
XPrec(e) == CASE e.t \in {"altn", "cc"} -> 1 [] e.t \in {"cat2", "lit"} -> 2 [] e.t = "opt" -> 3

ValueOf(e, side) ==
  CASE e.t = "lit" -> e.gs
    [] e.t = "cat2" -> (IF side = "prefix" THEN (IF e.a.t = "lit" THEN e.a.gs ELSE <<>>)
                                           ELSE (IF e.b.t = "lit" THEN e.b.gs ELSE <<>>))
    [] OTHER -> <<>>
RECURSIVE CommonPrefix(_, _)
CommonPrefix(x, y) == IF x = <<>> \/ y = <<>> \/ Head(x) # Head(y) THEN <<>>
                      ELSE <<Head(x)>> \o CommonPrefix(Tail(x), Tail(y))
FindCommon(e1, e2, side) ==
  LET x == ValueOf(e1, side)
      y == ValueOf(e2, side) IN
  IF side = "prefix" THEN CommonPrefix(x, y) ELSE Reverse(CommonPrefix(Reverse(x), Reverse(y)))
DropN(gs, side, n) == IF side = "prefix" THEN SubSeq(gs, n + 1, Len(gs)) ELSE SubSeq(gs, 1, Len(gs) - n)
RemoveSub(e, side, n) ==
  CASE e.t = "lit" -> XLit(DropN(e.gs, side, n))
    [] e.t = "cat2" -> (IF side = "prefix"
                        THEN (IF e.a.t = "lit" THEN XCat(XLit(DropN(e.a.gs, side, n)), e.b) ELSE e)
                        ELSE (IF e.b.t = "lit" THEN XCat(e.a, XLit(DropN(e.b.gs, side, n))) ELSE e))
    [] OTHER -> e

RECURSIVE Flatten(_)
Flatten(xs) == IF xs = <<>> THEN <<>>
               ELSE (IF Head(xs).t = "altn" THEN Flatten(Head(xs).xs) ELSE <<Head(xs)>>) \o Flatten(Tail(xs))
(* Vec::sort_by_key(Reverse(len)) is stable: insertion sort by descending length *)
RECURSIVE InsertDesc(_, _), SortDesc(_)
InsertDesc(sorted, e) ==
  IF sorted = <<>> THEN <<e>>
  ELSE IF XLen(Head(sorted)) >= XLen(e) THEN <<Head(sorted)>> \o InsertDesc(Tail(sorted), e)
       ELSE <<e>> \o sorted
SortDesc(xs) == IF xs = <<>> THEN <<>> ELSE InsertDesc(SortDesc(Front(xs)), Last(xs))
NewAlt(xs) == XAlt(SortDesc(Flatten(xs)))

Concatenate(x, y) ==
  IF XIsNone(x) \/ XIsNone(y) THEN XNone
  ELSE IF XIsEmpty(x) THEN y
  ELSE IF XIsEmpty(y) THEN x
  ELSE IF x.t = "lit" /\ y.t = "lit" THEN XLit(x.gs \o y.gs)
  ELSE IF x.t = "lit" /\ y.t = "cat2" /\ y.a.t = "lit" THEN XCat(XLit(x.gs \o y.a.gs), y.b)
  ELSE IF y.t = "lit" /\ x.t = "cat2" /\ x.b.t = "lit" THEN XCat(x.a, XLit(x.b.gs \o y.gs))
  ELSE XCat(x, y)

XCharSet(e) == IF e.t = "cc" THEN e.s ELSE {e.gs[1].u[1][1]}

XUnion(x, y) ==
  IF XIsNone(x) THEN y
  ELSE IF XIsNone(y) THEN x
  ELSE IF x = y THEN x
  ELSE
    LET pre == FindCommon(x, y, "prefix")
        x1 == IF pre = <<>> THEN x ELSE RemoveSub(x, "prefix", Len(pre))
        y1 == IF pre = <<>> THEN y ELSE RemoveSub(y, "prefix", Len(pre))
        suf == FindCommon(x1, y1, "suffix")
        x2 == IF suf = <<>> THEN x1 ELSE RemoveSub(x1, "suffix", Len(suf))
        y2 == IF suf = <<>> THEN y1 ELSE RemoveSub(y1, "suffix", Len(suf))
        core == IF XIsEmpty(x2) THEN XOpt(y2)
                ELSE IF XIsEmpty(y2) THEN XOpt(x2)
                ELSE IF x2.t = "opt" THEN XOpt(NewAlt(<<x2.x, y2>>))
                ELSE IF y2.t = "opt" THEN XOpt(NewAlt(<<x2, y2.x>>))
                ELSE IF XIsSingle(x2) /\ XIsSingle(y2) THEN XCC(XCharSet(x2) \cup XCharSet(y2))
                ELSE NewAlt(<<x2, y2>>)
        withPre == IF pre = <<>> THEN core ELSE XCat(XLit(pre), core)
    IN IF suf = <<>> THEN withPre ELSE XCat(withPre, XLit(suf))

(* petgraph Dfs from the initial state *)
GNbrIdx(g, s) == DescSeq({i \in DOMAIN g.es : g.es[i].s = s})
RECURSIVE DfsGo(_, _, _)
DfsGo(g, stack, seen) ==
  IF stack = <<>> THEN <<>>
  ELSE LET node == Last(stack)
           rest == Front(stack) IN
       IF node \in seen THEN DfsGo(g, rest, seen)
       ELSE LET nb == GNbrIdx(g, node)
                tgt == [j \in DOMAIN nb |-> g.es[nb[j]].d]
                push == SelectSeq(tgt, LAMBDA d : d \notin seen /\ d # node)
            IN <<node>> \o DfsGo(g, rest \o push, seen \cup {node})
DfsOrder(g, init) == DfsGo(g, <<init>>, {})
PosIn(seq, x) == CHOOSE i \in DOMAIN seq : seq[i] = x

InitA(g, ord) ==
  LET N == Len(ord)
      RECURSIVE Row(_, _)
      Row(nb, row) ==
        IF nb = <<>> THEN row
        ELSE LET e == g.es[Head(nb)]
                 j == PosIn(ord, e.d)
                 lit == XLit(<<e.sym>>) IN
             Row(Tail(nb), [row EXCEPT ![j] = IF XIsNone(@) THEN lit ELSE XUnion(@, lit)])
  IN [i \in 1 .. N |-> Row(GNbrIdx(g, ord[i]), [j \in 1 .. N |-> XNone])]
InitB(g, ord) == [i \in 1 .. Len(ord) |-> IF ord[i] \in g.fin THEN XLit(<<>>) ELSE XNone]

RECURSIVE Elim(_, _, _)
Elim(A, B, n) ==
  IF n = 0 THEN B
  ELSE LET RECURSIVE Rows(_, _, _)
           Rows(i, A1, B1) ==
             IF i >= n THEN [A |-> A1, B |-> B1]
             ELSE IF XIsNone(A1[i][n]) THEN Rows(i + 1, A1, B1)
             ELSE LET b2 == XUnion(B1[i], Concatenate(A1[i][n], B1[n]))
                      row == [j \in DOMAIN A1[i] |->
                                IF j < n THEN XUnion(A1[i][j], Concatenate(A1[i][n], A1[n][j])) ELSE A1[i][j]]
                  IN Rows(i + 1, [A1 EXCEPT ![i] = row], [B1 EXCEPT ![i] = b2])
           r == Rows(1, A, B)
       IN Elim(r.A, r.B, n - 1)
(* one elimination step (state n) as a function, for models that run the loop one action per state *)
ElimOne(A, B, n) ==
  LET RECURSIVE Rows(_, _, _)
      Rows(i, A1, B1) ==
        IF i >= n THEN [A |-> A1, B |-> B1]
        ELSE IF XIsNone(A1[i][n]) THEN Rows(i + 1, A1, B1)
        ELSE LET b2 == XUnion(B1[i], Concatenate(A1[i][n], B1[n]))
                 row == [j \in DOMAIN A1[i] |->
                           IF j < n THEN XUnion(A1[i][j], Concatenate(A1[i][n], A1[n][j])) ELSE A1[i][j]]
             IN Rows(i + 1, [A1 EXCEPT ![i] = row], [B1 EXCEPT ![i] = b2])
  IN Rows(1, A, B)

(* g = [n, es, fin], init = initial state; the trie is acyclic, so no self loops arise *)
ToExpr(g, init) ==
  LET ord == DfsOrder(g, init)
      B == Elim(InitA(g, ord), InitB(g, ord), Len(ord)) IN
  IF XIsNone(B[1]) THEN XLit(<<>>) ELSE B[1]

(* meaning of an expression in terms of Lang's ASTs *)
RECURSIVE XToLang(_)
XToLang(e) ==
  CASE e.t = "lit"  -> [t |-> "lit", syms |-> e.gs]
    [] e.t = "cc"   -> [t |-> "cls", s |-> SetToSeq(e.s)]
    [] e.t = "cat2" -> [t |-> "cat", xs |-> <<XToLang(e.a), XToLang(e.b)>>]
    [] e.t = "altn" -> [t |-> "alt", xs |-> [i \in DOMAIN e.xs |-> XToLang(e.xs[i])]]
    [] e.t = "opt"  -> [t |-> "rep", x |-> XToLang(e.x), lo |-> 0, hi |-> 1, g |-> TRUE]
XLang(e) == IF XIsNone(e) THEN {} ELSE LangOf(XToLang(e))

(***************************************************************************)
(* S11  src/format.rs / grapheme.rs: printing.  The bounded models use the *)
(* atoms 1, 2, 3, ... for the characters a, b, c, ...                      *)
(***************************************************************************)
(* E / P: placeholders for the two non-ASCII characters (the harness substitutes e acute and U+1F4A9) *)
Letters == <<"a", "b", "c", "d", "e", "f", "E", "P", "\\u{e9}", "\\u{1f4a9}", "\\u{d83d}\\u{dca9}">>
(* S11 escaping (grapheme.rs escape / escape_non_ascii_chars), applied here when the symbols are created: the *)
(* mapping is injective and keeps the order, so trie, minimisation and elimination are unaffected            *)
EscAtom(a, cfg) == IF ~cfg.escape THEN a
                   ELSE CASE a = 7 -> 9 [] a = 8 -> (IF cfg.surr THEN 11 ELSE 10) [] OTHER -> a
EscWord(w, cfg) == [i \in DOMAIN w |-> EscAtom(w[i], cfg)]
(* is_single_escape_sequence: one \u{...} can take a quantifier without a group, a surrogate pair cannot *)
AtomSingle(a) == a # 11
RECURSIVE Join(_)
Join(ss) == IF ss = <<>> THEN "" ELSE Head(ss) \o Join(Tail(ss))
Digits == <<"0", "1", "2", "3", "4", "5", "6", "7", "8", "9">>
RECURSIVE NatStr(_)
NatStr(n) == IF n < 10 THEN Digits[n + 1] ELSE NatStr(n \div 10) \o Digits[(n % 10) + 1]

Grp(str, cfg) == (IF cfg.capture THEN "(" ELSE "(?:") \o str \o ")"

RECURSIVE PrintSym(_, _)
PrintSym(sym, cfg) ==
  LET value == IF sym.nest = <<>> THEN Join([i \in DOMAIN sym.u |-> Letters[sym.u[i][1]]])
               ELSE Join([i \in DOMAIN sym.nest |-> PrintSym(sym.nest[i], cfg)])
      single == Len(sym.u) = 1 /\ AtomSingle(sym.u[1][1])
      body == IF single THEN value ELSE Grp(value, cfg)
  IN IF sym.lo = 1 /\ sym.hi = 1 THEN value
     ELSE IF sym.lo = sym.hi THEN body \o "{" \o NatStr(sym.lo) \o "}"
     ELSE body \o "{" \o NatStr(sym.lo) \o "," \o NatStr(sym.hi) \o "}"

(* character class: runs of three or more consecutive code points are written first-last *)
RECURSIVE ClassRuns(_, _)
ClassRuns(atoms, cur) ==
  LET flush == IF Len(cur) <= 2 THEN Join([i \in DOMAIN cur |-> Letters[cur[i]]])
               ELSE Letters[cur[1]] \o "-" \o Letters[cur[Len(cur)]] IN
  IF atoms = <<>> THEN flush
  ELSE IF cur # <<>> /\ Head(atoms) = cur[Len(cur)] + 1 THEN ClassRuns(Tail(atoms), Append(cur, Head(atoms)))
       ELSE flush \o ClassRuns(Tail(atoms), <<Head(atoms)>>)
PrintClass(S) == LET sorted == SortSeq(SetToSeq(S), <) IN
                 "[" \o ClassRuns(Tail(sorted), <<Head(sorted)>>) \o "]"

RECURSIVE PrintX(_, _)
PrintX(e, cfg) ==
  LET Child(c, parent) == IF XPrec(c) < XPrec(parent) /\ ~XIsSingle(c) THEN Grp(PrintX(c, cfg), cfg)
                          ELSE PrintX(c, cfg)
  IN CASE e.t = "lit"  -> Join([i \in DOMAIN e.gs |-> PrintSym(e.gs[i], cfg)])
       [] e.t = "cc"   -> PrintClass(e.s)
       [] e.t = "cat2" -> Child(e.a, e) \o Child(e.b, e)
       [] e.t = "altn" -> LET RECURSIVE Bars(_)
                              Bars(xs) == IF Len(xs) = 1 THEN Child(xs[1], e)
                                          ELSE Child(Head(xs), e) \o "|" \o Bars(Tail(xs))
                          IN Bars(e.xs)
       [] e.t = "opt"  -> Child(e.x, e) \o "?"

PrintRegex(e, cfg) ==
  (IF cfg.icase THEN "(?i)" ELSE "")
  \o (IF cfg.nostart THEN "" ELSE "^")
  \o (IF e.t = "altn" THEN Grp(PrintX(e, cfg), cfg) ELSE PrintX(e, cfg))
  \o (IF cfg.noend THEN "" ELSE "$")

(***************************************************************************)
(* S10  src/regexp.rs: when the end anchor is disabled every test case     *)
(* must be found as a whole; otherwise fall back to the un-minimised       *)
(* automaton and finally to the alternation of all test cases, longest     *)
(* first.                                                                  *)
(***************************************************************************)
WholeFound(e, tcs) == \A i \in DOMAIN tcs : Find(XToLang(e), tcs[i]) = <<0, Len(tcs[i])>>

RECURSIVE InsertByLen(_, _)
InsertByLen(sorted, w) ==
  IF sorted = <<>> THEN <<w>>
  ELSE IF Len(Head(sorted)) >= Len(w) THEN <<Head(sorted)>> \o InsertByLen(Tail(sorted), w)
       ELSE <<w>> \o sorted
RECURSIVE SortByLenDesc(_)
SortByLenDesc(ws) == IF ws = <<>> THEN <<>> ELSE InsertByLen(SortByLenDesc(Front(ws)), Last(ws))
FallbackAlt(tcs) == XAlt([i \in DOMAIN tcs |-> XLit(PlainCluster(SortByLenDesc(tcs)[i]))])
(* the same for prepared clusters: cls[i] is the cluster of tcs[i]; longest TEST CASE first, stable *)
RECURSIVE InsertPairByLen(_, _)
InsertPairByLen(sorted, p) ==
  IF sorted = <<>> THEN <<p>>
  ELSE IF Len(Head(sorted)[1]) >= Len(p[1]) THEN <<Head(sorted)>> \o InsertPairByLen(Tail(sorted), p)
       ELSE <<p>> \o sorted
RECURSIVE SortPairs(_)
SortPairs(ps) == IF ps = <<>> THEN <<>> ELSE InsertPairByLen(SortPairs(Front(ps)), Last(ps))
FallbackAltCl(tcs, cls) == LET sp == SortPairs([i \in DOMAIN tcs |-> <<tcs[i], cls[i]>>]) IN
                           XAlt([i \in DOMAIN sp |-> XLit(sp[i][2])])

(* the whole pipeline on a set of words, no class / repetition conversion *)
Pipeline(T, cfg, dev) ==
  LET sorted == SortTcs(T)
      tcs == [i \in DOMAIN sorted |-> EscWord(sorted[i], cfg)]
      clusters == [i \in DOMAIN tcs |-> IF cfg.rep THEN RepConvert(PlainCluster(tcs[i]), cfg) ELSE PlainCluster(tcs[i])]
      trie == BuildTrie(clusters, dev)
      min == Minimize(trie, dev)
      e1 == ToExpr(min, min.init)
      e2 == ToExpr(trie, 0)
      final == IF ~cfg.noend \/ WholeFound(e1, tcs) THEN e1
               ELSE IF WholeFound(e2, tcs) THEN e2
               ELSE FallbackAltCl(tcs, clusters)
  IN [tcs |-> tcs, clusters |-> clusters, trie |-> trie, min |-> min, e1 |-> e1, final |-> final,
      out |-> PrintRegex(final, cfg)]

(***************************************************************************)
(* S11, complete: verbose layout, capturing groups and colour              *)
(* (src/format.rs, grapheme.rs Display, component.rs, regexp.rs Display +  *)
(* indent_regexp).  Text is a sequence of PIECES: strings without line     *)
(* breaks, the piece NL for a line break, and pieces <<"sgr", code>> for   *)
(* the colour wrappers ESC [ code m.  Pieces keep the structure the        *)
(* indentation pass looks at (a line "starts with" its first piece).       *)
(***************************************************************************)
NL == "\n"
(* ESC is written \e so that the pieces stay printable strings *)
Sgr(code) == "\\e[" \o code \o "m"
SgrCodes == {"1;32", "1;33", "1;35", "1;36", "1;31", "104;37", "40;93", "103;30", "0"}
IsSgr(p) == p \in {Sgr(c) : c \in SgrCodes}
Colored(code, text, cfg) == IF cfg.color THEN <<Sgr(code)>> \o text \o <<Sgr("0")>> ELSE text

LParen(cfg) == Colored("1;32", <<IF cfg.capture THEN "(" ELSE "(?:">>, cfg)
RParen(cfg) == Colored("1;32", <<")">>, cfg)
(* Component::(Un)CapturedParenthesizedExpression(expr, verbose, has_final_line_break) *)
VGrp(body, cfg, finalBreak) ==
  IF cfg.verbose
  THEN <<NL>> \o LParen(cfg) \o <<NL>> \o body \o <<NL>> \o RParen(cfg) \o (IF finalBreak THEN <<NL>> ELSE <<>>)
  ELSE LParen(cfg) \o body \o RParen(cfg)
VQuant(q, cfg) == Colored("1;35", <<q>>, cfg) \o (IF cfg.verbose THEN <<NL>> ELSE <<>>)
VRepet(txt, cfg, withBreak) == Colored("104;37", <<txt>>, cfg) \o (IF withBreak /\ cfg.verbose THEN <<NL>> ELSE <<>>)

RECURSIVE VSym(_, _)
VSym(sym, cfg) ==
  LET value == IF sym.nest = <<>> THEN <<Join([i \in DOMAIN sym.u |-> Letters[sym.u[i][1]]])>>
               ELSE LET RECURSIVE Cat(_)
                        Cat(k) == IF k > Len(sym.nest) THEN <<>> ELSE VSym(sym.nest[k], cfg) \o Cat(k + 1)
                    IN Cat(1)
      single == Len(sym.u) = 1 /\ AtomSingle(sym.u[1][1])
      count == IF sym.lo = sym.hi THEN "{" \o NatStr(sym.lo) \o "}"
               ELSE "{" \o NatStr(sym.lo) \o "," \o NatStr(sym.hi) \o "}"
  IN IF sym.lo = 1 /\ sym.hi = 1 THEN value
     ELSE IF single THEN value \o VRepet(count, cfg, FALSE)
     ELSE VGrp(value, cfg, FALSE) \o VRepet(count, cfg, TRUE)

RECURSIVE VClassRuns(_, _, _)
VClassRuns(atoms, cur, cfg) ==
  LET flush == IF Len(cur) <= 2 THEN <<Join([i \in DOMAIN cur |-> Letters[cur[i]]])>>
               ELSE <<Letters[cur[1]]>> \o Colored("1;36", <<"-">>, cfg) \o <<Letters[cur[Len(cur)]]>> IN
  IF atoms = <<>> THEN flush
  ELSE IF cur # <<>> /\ Head(atoms) = cur[Len(cur)] + 1 THEN VClassRuns(Tail(atoms), Append(cur, Head(atoms)), cfg)
       ELSE flush \o VClassRuns(Tail(atoms), <<Head(atoms)>>, cfg)
VClass(S, cfg) == LET sorted == SortSeq(SetToSeq(S), <) IN
                  Colored("1;36", <<"[">>, cfg) \o VClassRuns(Tail(sorted), <<Head(sorted)>>, cfg)
                  \o Colored("1;36", <<"]">>, cfg)

RECURSIVE VExpr(_, _)
VExpr(e, cfg) ==
  LET Child(c, parent, finalBreak) ==
        IF XPrec(c) < XPrec(parent) /\ ~XIsSingle(c) THEN VGrp(VExpr(c, cfg), cfg, finalBreak) ELSE VExpr(c, cfg)
  IN CASE e.t = "lit"  -> LET RECURSIVE Cat(_)
                              Cat(k) == IF k > Len(e.gs) THEN <<>> ELSE VSym(e.gs[k], cfg) \o Cat(k + 1)
                          IN Cat(1)
       [] e.t = "cc"   -> VClass(e.s, cfg)
       [] e.t = "cat2" -> Child(e.a, e, TRUE) \o Child(e.b, e, TRUE)
       [] e.t = "altn" -> LET bar == (IF cfg.verbose THEN <<NL>> ELSE <<>>) \o Colored("1;31", <<"|">>, cfg)
                                     \o (IF cfg.verbose THEN <<NL>> ELSE <<>>)
                              RECURSIVE Bars(_)
                              Bars(xs) == IF Len(xs) = 1 THEN Child(xs[1], e, TRUE)
                                          ELSE Child(Head(xs), e, TRUE) \o bar \o Bars(Tail(xs))
                          IN Bars(e.xs)
       [] e.t = "opt"  -> (IF XPrec(e.x) < XPrec(e) /\ ~XIsSingle(e.x) THEN VGrp(VExpr(e.x, cfg), cfg, FALSE)
                           ELSE VExpr(e.x, cfg)) \o VQuant("?", cfg)

(* RegExp::fmt before the indentation pass *)
VRaw(e, cfg) ==
  LET flag == IF cfg.icase /\ cfg.verbose THEN Colored("40;93", <<"(?ix)">>, cfg) \o <<NL>>
              ELSE IF cfg.icase THEN Colored("40;93", <<"(?i)">>, cfg)
              ELSE IF cfg.verbose THEN Colored("40;93", <<"(?x)">>, cfg) \o <<NL>> ELSE <<>>
      caret == IF cfg.nostart THEN <<>> ELSE Colored("1;33", <<"^">>, cfg) \o (IF cfg.verbose THEN <<NL>> ELSE <<>>)
      dollar == IF cfg.noend THEN <<>> ELSE (IF cfg.verbose THEN <<NL>> ELSE <<>>) \o Colored("1;33", <<"$">>, cfg)
      body == IF e.t = "altn" THEN VGrp(VExpr(e, cfg), cfg, FALSE) ELSE VExpr(e, cfg)
  IN flag \o caret \o body \o dollar

(* str::lines(): split the pieces at NL (a trailing NL does not open another line) *)
RECURSIVE SplitLines(_, _)
SplitLines(ps, cur) ==
  IF ps = <<>> THEN (IF cur = <<>> THEN <<>> ELSE <<cur>>)
  ELSE IF Head(ps) = NL THEN <<cur>> \o SplitLines(Tail(ps), <<>>)
       ELSE SplitLines(Tail(ps), Append(cur, Head(ps)))
StripLine(line) == SelectSeq(line, LAMBDA p : ~IsSgr(p))
FirstPiece(line) == IF StripLine(line) = <<>> THEN "" ELSE StripLine(line)[1]

(* indent_regexp: nesting follows "^", "(" lines and "$", ")" lines of the UNCOLOURED text *)
RECURSIVE IndentFrom(_, _, _, _)
IndentFrom(lines, i, level, cfg) ==      \* i: 0-based index of the line (empty lines are counted, not printed)
  IF i >= Len(lines) THEN <<>>
  ELSE LET line == lines[i + 1]
           lv1 == IF i = 1 /\ cfg.nostart THEN level + 1 ELSE level
           plain == StripLine(line)
           txt == Join(plain)
       IN IF line = <<>> THEN IndentFrom(lines, i + 1, lv1, cfg)
          ELSE LET lv2 == IF lv1 > 0 /\ (txt = "$" \/ FirstPiece(line) = ")") THEN lv1 - 1 ELSE lv1
                   lv3 == IF txt = "^" \/ (i > 0 /\ FirstPiece(line) \in {"(", "(?:"}) THEN lv2 + 1 ELSE lv2
               IN <<[indent |-> lv2, line |-> line]>> \o IndentFrom(lines, i + 1, lv3, cfg)
Indented(e, cfg) == IndentFrom(SplitLines(VRaw(e, cfg), <<>>), 0, 0, cfg)

(* final text: code point level is not needed, the model compares piece-wise *)
RECURSIVE Spaces(_)
Spaces(n) == IF n = 0 THEN "" ELSE "  " \o Spaces(n - 1)
PieceStr(p) == p
LineStr(l) == Spaces(l.indent) \o Join([i \in DOMAIN l.line |-> PieceStr(l.line[i])])
RECURSIVE JoinLines(_)
JoinLines(ls) == IF ls = <<>> THEN "" ELSE IF Len(ls) = 1 THEN LineStr(ls[1]) ELSE LineStr(ls[1]) \o "\\n" \o JoinLines(Tail(ls))
(* what build() returns (line breaks as \n, ESC as \e so that the string stays printable) *)
PrintFull(e, cfg) ==
  IF cfg.verbose THEN JoinLines(Indented(e, cfg))
  ELSE Join([i \in DOMAIN VRaw(e, cfg) |-> PieceStr(VRaw(e, cfg)[i])])
(* C15 at the piece level: removing the colour pieces of the highlighted text gives the plain text *)
StripPieces(ls) == [i \in DOMAIN ls |-> [indent |-> ls[i].indent, line |-> StripLine(ls[i].line)]]
=============================================================================

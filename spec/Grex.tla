-------------------------------- MODULE Grex --------------------------------
(***************************************************************************)
(* Level 1 of the specification: WHAT each stage of grex's pipeline must   *)
(* achieve (relational post-conditions over Lang), and the listed          *)
(* properties C01..C17 as named predicates.  These operators are used by   *)
(* the bounded models (MC_*.tla), which apply them to the Level-2          *)
(* transcription of the algorithms, and by the trace specification         *)
(* (Monitor.tla), which applies them to artefacts recorded from the real   *)
(* code.                                                                   *)
(*                                                                         *)
(* A settings record c has the boolean fields                              *)
(*   digit nondigit space nonspace word nonword rep icase capture escape   *)
(*   surr verbose nostart noend color        and the naturals minrep minsub*)
(* A cell (abstract character of a test case) is                           *)
(*   [lit |-> <<atom>>, fold |-> <<atoms>>, d, w, s |-> BOOLEAN]           *)
(* where d/w/s say whether the REGEX CRATE's \d \w \s contain it, and fold *)
(* is its orbit under the crate's simple case folding.                     *)
(* G is the group record carrying the denotations of the six class tokens, *)
(* plain (D W S ND NW NS) and under (?i) (Di Wi Si NDi NWi NSi).           *)
(***************************************************************************)
EXTENDS Lang

AnyClass(c) == c.digit \/ c.nondigit \/ c.space \/ c.nonspace \/ c.word \/ c.nonword

(***************************************************************************)
(* S4: the documented precedence of the class conversions                  *)
(* (README / src/cluster.rs convert_to_char_classes)                       *)
(***************************************************************************)
Token(cell, c) ==
  IF      c.digit    /\  cell.d THEN "d"
  ELSE IF c.word     /\  cell.w THEN "w"
  ELSE IF c.space    /\  cell.s THEN "s"
  ELSE IF c.nondigit /\ ~cell.d THEN "D"
  ELSE IF c.nonword  /\ ~cell.w THEN "W"
  ELSE IF c.nonspace /\ ~cell.s THEN "S"
  ELSE "lit"

ClassAtoms(G, tok, icase) ==
  CASE tok = "d" -> IF icase THEN G.Di  ELSE G.D
    [] tok = "w" -> IF icase THEN G.Wi  ELSE G.W
    [] tok = "s" -> IF icase THEN G.Si  ELSE G.S
    [] tok = "D" -> IF icase THEN G.NDi ELSE G.ND
    [] tok = "W" -> IF icase THEN G.NWi ELSE G.NW
    [] tok = "S" -> IF icase THEN G.NSi ELSE G.NS

(* the set of atoms one test-case position may be replaced with *)
CellSet(cell, c, G) ==
  LET t == Token(cell, c) IN
  IF t = "lit" THEN (IF c.icase THEN ToSet(cell.fold) ELSE ToSet(cell.lit))
  ELSE ToSet(ClassAtoms(G, t, c.icase))

NoClass(c) == [c EXCEPT !.digit = FALSE, !.nondigit = FALSE, !.space = FALSE,
                        !.nonspace = FALSE, !.word = FALSE, !.nonword = FALSE]

(* E: the EXPECTED language of a list of test cases under settings c, as explicit set ... *)
ExpWord(t, c, G) == ProdS([i \in DOMAIN t |-> CellSet(t[i], c, G)])
E(T, c, G) == UNION {ExpWord(T[i], c, G) : i \in DOMAIN T}

(* ... and as an AST for the symbolic semantics *)
CellSeq(cell, c, G) ==
  LET t == Token(cell, c) IN
  IF t = "lit" THEN (IF c.icase THEN cell.fold ELSE cell.lit) ELSE ClassAtoms(G, t, c.icase)
WordAst(t, c, G) == [t |-> "cat", xs |-> [i \in DOMAIN t |-> [t |-> "cls", s |-> CellSeq(t[i], c, G)]]]
ExpAst(T, c, G) == [t |-> "alt", xs |-> [i \in DOMAIN T |-> WordAst(T[i], c, G)]]

TheWord(t) == [i \in DOMAIN t |-> t[i].lit[1]]

(***************************************************************************)
(* S1/S2: case folding, sorting, de-duplication                            *)
(*   post: as a set of fold-orbit words, pre = orig (icase);               *)
(*         as a set of words, pre = orig (otherwise)                       *)
(***************************************************************************)
KeyWord(t, c) == [i \in DOMAIN t |-> IF c.icase THEN ToSet(t[i].fold) ELSE ToSet(t[i].lit)]
KeySet(T, c) == {KeyWord(T[i], c) : i \in DOMAIN T}
PreOk(orig, pre, c) == KeySet(pre, c) = KeySet(orig, c)
NoDup(pre) == \A i, j \in DOMAIN pre : i # j => TheWord(pre[i]) # TheWord(pre[j])

(***************************************************************************)
(* S3-S5 on one cluster                                                    *)
(***************************************************************************)
SameLang(e1, e2, G) == EqD(DescAst(e1), DescAst(e2), G.n, FALSE)
SegmentOk(cluster, t, c, G)   == SameLang(SymsAst(cluster), WordAst(t, NoClass(c), G), G)
ClassConvOk(cluster, t, c, G) == SameLang(SymsAst(cluster), WordAst(t, c, G), G)
RECURSIVE NestedOk(_, _)
NestedOk(sym, G) == \/ sym.nest = <<>>
                    \/ /\ SameLang(SymsAst(sym.nest), UnitAst(sym), G)
                       /\ \A i \in DOMAIN sym.nest : NestedOk(sym.nest[i], G)
RepConvOk(after, before, G)   == /\ SameLang(SymsAst(after), SymsAst(before), G)
                                 /\ \A i \in DOMAIN after : NestedOk(after[i], G)

(* C13 at the cluster level: a symbol is counted only if it clears both thresholds *)
SymThresholdOk(sym, c) == (sym.hi > 1 \/ sym.lo > 1) => (sym.hi > c.minrep /\ Len(sym.u) >= c.minsub)
SymPlain(sym) == sym.lo = 1 /\ sym.hi = 1 /\ sym.nest = <<>>
ClusterThresholdsOk(cluster, c) ==
  \A i \in DOMAIN cluster :
     IF c.rep THEN SymDepthOk(cluster[i], LAMBDA s : SymThresholdOk(s, c))
     ELSE SymPlain(cluster[i])

(***************************************************************************)
(* S6-S9                                                                   *)
(***************************************************************************)
(* explicit-set forms (used by the bounded models over tiny alphabets) *)
ClustersLang(cl) == UNION {SymsLang(cl[i]) : i \in DOMAIN cl}
TrieOk(trie, cl)  == Acyclic(trie) /\ GraphLang(trie) = ClustersLang(cl)
MinLangOk(min, trie) == Acyclic(min) /\ GraphLang(min) = GraphLang(trie)
MinShapeOk(min)   == DeterministicSym(min) /\ MinimalSym(min)

(***************************************************************************)
(* S11: the printed pattern, as the target engine's parser reads it        *)
(***************************************************************************)
HasI(out) == \E i \in 1 .. Len(out.flags) : SubSeq(out.flags, i, i) = "i"
HasX(out) == \E i \in 1 .. Len(out.flags) : SubSeq(out.flags, i, i) = "x"
FlagsOk(out, c)   == (HasI(out) <=> c.icase) /\ (HasX(out) <=> c.verbose) /\ out.oflags = 0
AnchorsOk(out, c) == /\ out.caret  <=> ~c.nostart
                     /\ out.dollar <=> ~c.noend
                     /\ out.ncaret  = (IF c.nostart THEN 0 ELSE 1)
                     /\ out.ndollar = (IF c.noend THEN 0 ELSE 1)
                     /\ out.nassert = 0
GroupsOk(out, c)  == IF c.capture THEN out.nnoncap = 0 ELSE out.ncap = 0
CountedOk(out, c) ==
  IF ~c.rep THEN out.counted = <<>>
  ELSE \A i \in DOMAIN out.counted :
          LET q == out.counted[i] IN q.hi > c.minrep /\ q.ml >= c.minsub

(***************************************************************************)
(* C11: escape tokens.  A token is <<0, cp>> (raw code point) or           *)
(* <<1, v>> (the escape \u{v} written in lower-case hex without padding).  *)
(***************************************************************************)
EscTok(cp, surr) ==
  IF cp < 128 THEN <<<<0, cp>>>>
  ELSE IF surr /\ cp >= 65536
       THEN <<<<1, 55296 + ((cp - 65536) \div 1024)>>, <<1, 56320 + ((cp - 65536) % 1024)>>>>
       ELSE <<<<1, cp>>>>
IsHigh(v) == v >= 55296 /\ v <= 56319
IsLow(v)  == v >= 56320 /\ v <= 57343
RECURSIVE EscWellFormed(_, _)
EscWellFormed(toks, surr) ==
  IF toks = <<>> THEN TRUE
  ELSE LET h == Head(toks) IN
       IF h[1] = 0 THEN h[2] < 128 /\ EscWellFormed(Tail(toks), surr)
       \* [2, v]: an escape in another notation (\uXXXX, \xHH, ...) - never for a non-ASCII code point
       ELSE IF h[1] = 2 THEN h[2] < 128 /\ EscWellFormed(Tail(toks), surr)
       ELSE IF IsHigh(h[2])
            THEN /\ surr
                 /\ Len(toks) >= 2 /\ toks[2][1] = 1 /\ IsLow(toks[2][2])
                 /\ EscWellFormed(Tail(Tail(toks)), surr)
            ELSE /\ ~IsLow(h[2])
                 /\ h[2] >= 128 /\ h[2] <= 1114111
                 /\ (surr => h[2] < 65536)
                 /\ EscWellFormed(Tail(toks), surr)

(***************************************************************************)
(* C15: removing SGR sequences  ESC [ digits (; digits)* m                  *)
(***************************************************************************)
IsDigitCp(x) == x >= 48 /\ x <= 57
RECURSIVE SgrEnd(_, _)
(* position just after the SGR sequence whose parameters start at i, or 0 *)
SgrEnd(s, i) ==
  IF i > Len(s) THEN 0
  ELSE IF IsDigitCp(s[i]) \/ s[i] = 59 THEN SgrEnd(s, i + 1)
  ELSE IF s[i] = 109 THEN i + 1 ELSE 0
RECURSIVE StripFrom(_, _)
StripFrom(s, i) ==
  IF i > Len(s) THEN <<>>
  ELSE IF s[i] = 27 /\ i + 1 <= Len(s) /\ s[i + 1] = 91 /\ SgrEnd(s, i + 2) # 0
       THEN StripFrom(s, SgrEnd(s, i + 2))
       ELSE <<s[i]>> \o StripFrom(s, i + 1)
StripSGR(s) == StripFrom(s, 1)
=============================================================================

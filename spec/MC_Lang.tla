------------------------------- MODULE MC_Lang --------------------------------
(***************************************************************************)
(* Self-consistency of the three semantics of Lang.tla on ALL regex ASTs   *)
(* of depth <= Depth over two atoms (classes {1}, {2}, {1,2}; eps; cat,    *)
(* alt of two; optional; bounded repetition {1,2}):                        *)
(*   explicit sets    LangOf                                               *)
(*   symbolic         EqD / Accepts (partial derivatives + bisimulation)   *)
(*   ordered          Ends / Find (leftmost-first, greedy)                 *)
(* One initial state per pair of ASTs.                                     *)
(***************************************************************************)
EXTENDS Lang, TLC

CONSTANT Depth

Cls(S) == [t |-> "cls", s |-> S]
Leaves == {Cls(<<1>>), Cls(<<2>>), Cls(<<1, 2>>), [t |-> "eps"]}
RECURSIVE Asts(_)
Asts(d) ==
  IF d = 0 THEN Leaves
  ELSE LET P == Asts(d - 1) IN
       P \cup {[t |-> "cat", xs |-> <<a, b>>] : a, b \in P}
         \cup {[t |-> "alt", xs |-> <<a, b>>] : a, b \in P}
         \cup {[t |-> "rep", x |-> a, lo |-> 0, hi |-> 1, g |-> TRUE] : a \in P}
         \cup {[t |-> "rep", x |-> a, lo |-> 1, hi |-> 2, g |-> TRUE] : a \in P}
All == Asts(Depth)

VARIABLES a, b
Init == a \in All /\ b \in Asts(1)
Next == UNCHANGED <<a, b>>
Spec == Init /\ [][Next]_<<a, b>>

RECURSIVE WordsUpTo(_)
WordsUpTo(n) == IF n = 0 THEN {<<>>} ELSE WordsUpTo(n - 1) \cup {w \o <<c>> : w \in WordsUpTo(n - 1), c \in {1, 2}}
Probe == WordsUpTo(3)

(* the single-variable form of ConcatL used by the TLAPS lemmas (spec/tlaps/LangLemmas.tla) is the same set *)
ConcatForms == ConcatL(LangOf(a), LangOf(b)) = {p[1] \o p[2] : p \in LangOf(a) \X LangOf(b)}
SymbolicEquality == EqD(DescAst(a), DescAst(b), 2, FALSE) = (LangOf(a) = LangOf(b))
SymbolicEqualityModEps == EqD(DescAst(a), DescAst(b), 2, TRUE) = (LangOf(a) \ {<<>>} = LangOf(b) \ {<<>>})
SymbolicMembership == \A w \in Probe : Accepts(DescAst(a), w) = (w \in LangOf(a))
(* a full match exists in the ordered semantics iff the word is in the language *)
OrderedAgrees == \A w \in Probe : (Len(w) \in ToSet(Ends(a, w, 0))) = (w \in LangOf(a))
(* Find returns the leftmost start, and an end that some match from that start has *)
FindSane == \A w \in Probe :
   LET f == Find(a, w) IN
   IF f = <<-1, -1>> THEN \A i \in 0 .. Len(w) : Ends(a, w, i) = <<>>
   ELSE /\ \A i \in 0 .. f[1] - 1 : Ends(a, w, i) = <<>>
        /\ SubSeq(w, f[1] + 1, f[2]) \in LangOf(a)
=============================================================================

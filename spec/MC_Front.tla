------------------------------ MODULE MC_Front -------------------------------
(***************************************************************************)
(* Laws of the string-level functions of the specification, checked        *)
(* exhaustively over small domains (one TLC state, every law an            *)
(* invariant):                                                             *)
(*   Lines      str::lines() is invariant under LF / CRLF and a final EOL  *)
(*   PyRewrite  \u{h..} -> \uXXXX / \UXXXXXXXX for every hex width         *)
(*   EscTok     UTF-16 arithmetic: well-formed, reversible, boundaries     *)
(*   StripSGR   removing inserted SGR sequences restores the text          *)
(*   CliMap     --no-anchors = both anchor flags; surrogates need escape   *)
(***************************************************************************)
EXTENDS Grex, Front, TLC

VARIABLE x
Init == x = 0
Next == UNCHANGED x
Spec == Init /\ [][Next]_x

RECURSIVE SeqsUpTo(_, _)
SeqsUpTo(S, n) == IF n = 0 THEN {<<>>} ELSE SeqsUpTo(S, n - 1) \cup {s \o <<a>> : s \in SeqsUpTo(S, n - 1), a \in S}

RECURSIVE JoinWith(_, _)
JoinWith(ls, eol) == IF ls = <<>> THEN <<>> ELSE IF Len(ls) = 1 THEN ls[1] ELSE ls[1] \o eol \o JoinWith(Tail(ls), eol)

LineTexts == SeqsUpTo({97, 98}, 2)
LineLists == {ls \in SeqsUpTo(LineTexts, 3) : ls # <<>>}
LinesLaw ==
  \A ls \in LineLists : \A eol \in {<<10>>, <<13, 10>>} : \A final \in BOOLEAN :
     (final \/ ls[Len(ls)] # <<>>) =>
        Lines(JoinWith(ls, eol) \o (IF final THEN eol ELSE <<>>)) = ls
LinesNoEol == \A s \in SeqsUpTo({97, 13, 10}, 5) : \A i \in DOMAIN Lines(s) : 10 \notin ToSet(Lines(s)[i])
LinesEmpty == Lines(<<>>) = <<>> /\ Lines(<<10>>) = <<<<>>>> /\ Lines(<<97, 13>>) = <<<<97, 13>>>>

Boundary == {127, 128, 233, 255, 256, 4095, 4096, 65535, 65536, 1048575, 1048576, 1114111, 55295, 57344, 128169}
RECURSIVE HexDigits(_)
HexDigits(n) == IF n < 16 THEN <<HexCp(n)>> ELSE HexDigits(n \div 16) \o <<HexCp(n % 16)>>
Brace(cp) == <<92, 117, 123>> \o HexDigits(cp) \o <<125>>
RECURSIVE HexValue(_)
HexValue(ds) == IF ds = <<>> THEN 0 ELSE HexValue(SubSeq(ds, 1, Len(ds) - 1)) * 16 + HexVal(ds[Len(ds)])
PyLaw ==
  \A cp \in Boundary : cp >= 128 =>
     LET r == PyRewriteFrom(<<97>> \o Brace(cp) \o <<98>>, 1) IN
     IF cp <= 65535 THEN Len(r) = 8 /\ r[2] = 92 /\ r[3] = 117 /\ HexValue(SubSeq(r, 4, 7)) = cp /\ r[8] = 98
     ELSE Len(r) = 12 /\ r[2] = 92 /\ r[3] = 85 /\ HexValue(SubSeq(r, 4, 11)) = cp /\ r[12] = 98
PyNoBraceLeft ==
  \A a, b \in Boundary : (a >= 128 /\ b >= 128) =>
     ~HasBraceEscapeFrom(PyRewriteFrom(Brace(a) \o Brace(b) \o <<123, 50, 125>>, 1), 1)
(* D15: an escaped backslash followed by a counted 'u' is not an escape; an escape after an escaped backslash is *)
PyEscapedBackslash ==
  /\ PyRewriteFrom(<<94, 92, 92, 117, 123, 51, 125, 36>>, 1) = <<94, 92, 92, 117, 123, 51, 125, 36>>
  /\ PyRewriteFrom(<<92, 92>> \o Brace(233), 1) = <<92, 92, 92, 117, 48, 48, 101, 57>>
  /\ PyRewriteFrom(<<92, 92, 92, 92>> \o Brace(233), 1) = <<92, 92, 92, 92, 92, 117, 48, 48, 101, 57>>
PyKeepsOtherText == \A s \in SeqsUpTo({92, 117, 123, 97, 125}, 4) :
     (~HasBraceEscapeFrom(s, 1)) => PyRewriteFrom(s, 1) = s

EscLaw ==
  \A cp \in Boundary : \A surr \in BOOLEAN :
     LET t == EscTok(cp, surr) IN
     /\ EscWellFormed(t, surr)
     /\ (cp < 128 => t = <<<<0, cp>>>>)
     /\ (cp >= 128 /\ ~(surr /\ cp >= 65536) => t = <<<<1, cp>>>>)
     /\ (surr /\ cp >= 65536 =>
           /\ Len(t) = 2 /\ IsHigh(t[1][2]) /\ IsLow(t[2][2])
           /\ 65536 + (t[1][2] - 55296) * 1024 + (t[2][2] - 56320) = cp)
EscRejects == /\ ~EscWellFormed(<<<<1, 55357>>>>, TRUE)                    \* lone high surrogate
              /\ ~EscWellFormed(<<<<1, 56489>>, <<1, 55357>>>>, TRUE)      \* wrong order
              /\ ~EscWellFormed(<<<<1, 1114111>>>>, TRUE)                  \* astral left unpaired
              /\ ~EscWellFormed(<<<<1, 55357>>, <<1, 56489>>>>, FALSE)     \* pair although not requested
              /\ ~EscWellFormed(<<<<2, 160>>, <<0, 92>>, <<0, 117>>, <<0, 48>>, <<0, 48>>, <<0, 97>>, <<0, 48>>>>, FALSE) \* \u00a0
              /\ EscWellFormed(<<<<2, 10>>, <<0, 92>>, <<0, 120>>, <<0, 48>>, <<0, 97>>>>, FALSE)       \* \x0a is ASCII
              /\ ~EscWellFormed(<<<<0, 233>>>>, FALSE)                     \* raw non-ASCII

Sgr == <<27, 91, 49, 59, 51, 50, 109>>
Reset == <<27, 91, 48, 109>>
Texts == SeqsUpTo({97, 91, 109, 49, 92}, 3)
SgrLaw == \A p \in Texts : \A i \in 0 .. Len(p) : \A j \in i .. Len(p) :
     StripSGR(SubSeq(p, 1, i) \o Sgr \o SubSeq(p, i + 1, j) \o Reset \o SubSeq(p, j + 1, Len(p))) = p
SgrKeepsEscapedBracket == StripSGR(<<27, 92, 91, 49, 109>>) = <<27, 92, 91, 49, 109>>

CliLaw ==
  \A F \in SUBSET {"no-anchors", "no-start-anchor", "no-end-anchor", "escape", "with-surrogates", "digits"} :
     LET c == CliMap(F, 1, 1) IN
     /\ ("no-anchors" \in F => c.nostart /\ c.noend)
     /\ (c.nostart <=> ("no-anchors" \in F \/ "no-start-anchor" \in F))
     /\ (c.noend <=> ("no-anchors" \in F \/ "no-end-anchor" \in F))
     /\ (c.surr => c.escape)
     /\ (CliUsageError(F, 1, 1) <=> ("with-surrogates" \in F /\ "escape" \notin F))
=============================================================================

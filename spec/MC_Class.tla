------------------------------ MODULE MC_Class -------------------------------
(***************************************************************************)
(* The class-conversion table (S4, Grex!Token): 4 kinds of characters x    *)
(* all 64 subsets of the six conversion options.  Invariants: the chosen   *)
(* class contains the character; a negated class is chosen only for a      *)
(* character outside the positive class; the character stays literal only *)
(* if no enabled option applies; the documented precedence.                *)
(* Every table entry prints a REPLAY line; the harness instantiates it     *)
(* with real characters of that kind (kinds decided by the regex crate).   *)
(***************************************************************************)
EXTENDS Grex, Builder, TLC, Json

Kinds == { [d |-> TRUE,  w |-> TRUE,  s |-> FALSE],     \* decimal digit
           [d |-> FALSE, w |-> TRUE,  s |-> FALSE],     \* word character that is not a digit
           [d |-> FALSE, w |-> FALSE, s |-> TRUE],      \* white space
           [d |-> FALSE, w |-> FALSE, s |-> FALSE] }    \* anything else
Flags == {"digit", "nondigit", "space", "nonspace", "word", "nonword"}
CfgOf(F) == [f \in DOMAIN DefaultCfg |-> IF f \in Flags THEN f \in F ELSE DefaultCfg[f]]

VARIABLES kind, fl, done
vars == <<kind, fl, done>>
Init == kind \in Kinds /\ fl \in SUBSET Flags /\ done = FALSE
Next == ~done /\ done' = TRUE /\ UNCHANGED <<kind, fl>>
Spec == Init /\ [][Next]_vars

Tok == Token(kind, CfgOf(fl))
Contains == /\ (Tok = "d" => kind.d)  /\ (Tok = "w" => kind.w)  /\ (Tok = "s" => kind.s)
            /\ (Tok = "D" => ~kind.d) /\ (Tok = "W" => ~kind.w) /\ (Tok = "S" => ~kind.s)
Applicable == {f \in fl : \/ (f = "digit" /\ kind.d) \/ (f = "word" /\ kind.w) \/ (f = "space" /\ kind.s)
                          \/ (f = "nondigit" /\ ~kind.d) \/ (f = "nonword" /\ ~kind.w) \/ (f = "nonspace" /\ ~kind.s)}
LiteralOnlyIfNothingApplies == (Tok = "lit") <=> (Applicable = {})
Precedence ==
  LET order == <<"digit", "word", "space", "nondigit", "nonword", "nonspace">>
      letter == [digit |-> "d", word |-> "w", space |-> "s", nondigit |-> "D", nonword |-> "W", nonspace |-> "S"]
      first == CHOOSE i \in 1 .. 6 : order[i] \in Applicable /\ \A j \in 1 .. i - 1 : order[j] \notin Applicable
  IN Applicable # {} => Tok = letter[order[first]]
Replay == done => PrintT(ToJson([replay |-> "class", d |-> kind.d, w |-> kind.w, s |-> kind.s,
                                 flags |-> fl, token |-> Tok]))
=============================================================================

------------------------------- MODULE Monitor -------------------------------
(***************************************************************************)
(* Trace specification: replays an NDJSON trace recorded from the REAL     *)
(* grex (hook snapshots + observations of the real regex engine) as a      *)
(* behaviour of the Level-1 pipeline of Grex.tla.                          *)
(*                                                                         *)
(*  - Acceptance (well-formedness): every event must be the next enabled   *)
(*    action of the pipeline state machine (pc); POSTCONDITION Accepted    *)
(*    checks the whole trace was consumed.  A rejection is a TOOL error    *)
(*    (misplaced hook / harness bug), never a property violation.          *)
(*  - Verdicts: the monitor is TOTAL - it never stops at a violated        *)
(*    property; it prints one VERDICT line and goes on, so the rest of the *)
(*    trace is still examined.                                             *)
(*  - Languages are compared SYMBOLICALLY (Lang!EqD over the atoms of the  *)
(*    group), i.e. over all 1 112 064 scalar values, without enumeration.  *)
(***************************************************************************)
EXTENDS Algo, Front, TLC, Json, IOUtils

Rec == ndJsonDeserialize(IOEnv.TRACE)

VARIABLES l,        \* next event to consume
          pc,       \* where in the pipeline the current run is
          G,        \* current group record
          tcs,      \* original test cases of the group (sequences of cells)
          run,      \* facts about the current run
          memo,     \* finished runs of the group
          cnt       \* counters (evaluations per check kind)
vars == <<l, pc, G, tcs, run, memo, cnt>>

Has(r, k) == k \in DOMAIN r
Ev == Rec[l]
IsEvent(name) == l <= Len(Rec) /\ Rec[l].ev = name

(***************************************************************************)
(* verdict plumbing                                                        *)
(***************************************************************************)
EmitX(props, kind, extra, why) ==
  PrintT(ToJson([verdict |-> kind, props |-> props, g |-> G.g, r |-> run.r,
                 first |-> IF run.firstbad = "" THEN kind ELSE run.firstbad,
                 widen |-> IF Has(Ev, "widen") THEN Ev.widen ELSE run.widen,
                 explained |-> why, extra |-> extra]))
Emit(props, kind, extra) == EmitX(props, kind, extra, "")

(* Judge: evaluate a check; on failure print a verdict. Always TRUE. *)
Judge(ok, props, kind, extra) == IF ok THEN TRUE ELSE Emit(props, kind, extra)

Bump(kinds) == [k \in DOMAIN cnt \cup kinds |->
                  (IF k \in DOMAIN cnt THEN cnt[k] ELSE 0) + (IF k \in kinds THEN 1 ELSE 0)]

(* properties an exactness failure of the current run belongs to *)
ExactProps(c) == (IF c.rep THEN {"C05"} ELSE {})
                 \cup (IF AnyClass(c) THEN {"C03"} ELSE {})
                 \cup (IF c.icase THEN {"C04"} ELSE {})
                 \cup (IF ~c.rep /\ ~AnyClass(c) /\ ~c.icase THEN {"C02"} ELSE {})

FirstBad(ok, stage) == IF run.firstbad = "" /\ ~ok THEN stage ELSE run.firstbad

(***************************************************************************)
(* Named deviations (DESIGN.md 3.4).  A language check that fails is       *)
(* EXPLAINED when the recorded language is exactly what the as-built       *)
(* transcription (Algo.tla, AsBuilt) predicts for a deviation that was     *)
(* observed at its call site earlier in the same run:                      *)
(*   eps-dropped  the minimised automaton lost exactly the empty word      *)
(*   widen        the trie is the one trie insertion with widening builds  *)
(* Anything else is unexplained and reported as a new violation.           *)
(***************************************************************************)
Same(D1, D2)    == EqD(D1, D2, G.n, FALSE)
SameNoEps(D1, D2) == EqD(D1, D2, G.n, TRUE)
ExplBy(L, X, eps, widened, asbuilt) ==
  IF Same(L, X) THEN "ok"
  ELSE IF eps /\ SameNoEps(L, X) THEN "eps-dropped"
  ELSE IF widened /\ Same(L, asbuilt) THEN "widen"
  ELSE IF widened /\ eps /\ SameNoEps(L, asbuilt) THEN "widen+eps-dropped"
  ELSE "no"
(* As built, the self-check that runs when the end anchor is disabled notices the lost empty word and    *)
(* falls back to the un-minimised automaton (unless surrogate pairs make the pattern uncompilable), so   *)
(* AFTER the self-check the loss is excused only for runs in which no self-check can have happened.     *)
EpsAfterCheck(eps, c) == eps /\ (~c.noend \/ c.surr)
Expl(L, X) == ExplBy(L, X, run.eps, run.widened, run.asbuilt)
ExplFinal(L, X) == ExplBy(L, X, EpsAfterCheck(run.eps, run.cfg), run.widened, run.asbuilt)
JudgeX(why, props, kind) ==
  IF why = "ok" THEN TRUE ELSE EmitX(props, kind, "", IF why = "no" THEN "" ELSE why)
(* per-test-case checks: only the empty test case may fail, and only after eps-dropped *)
ExplTcs(bad) == IF bad = {} THEN "ok"
                ELSE IF EpsAfterCheck(run.eps, run.cfg) /\ \A i \in bad : tcs[i] = <<>> THEN "eps-dropped" ELSE "no"

Nothing == DescAst([t |-> "alt", xs |-> <<>>])     \* the empty language

(***************************************************************************)
(* Level-2 conformance ("spec drift", DESIGN.md 4.4): is the recorded      *)
(* automaton THE one the transcription of Algo.tla computes from the       *)
(* recorded clusters?  Counted and reported as a fidelity note, never a    *)
(* verdict: another correct implementation may build another automaton.    *)
(***************************************************************************)
RecEdges(g) == {<<g.edges[i][1], g.edges[i][2], g.syms[g.edges[i][3]]>> : i \in DOMAIN g.edges}
ModEdges(gr) == {<<gr.es[i].s, gr.es[i].d, gr.es[i].sym>> : i \in DOMAIN gr.es}
RECURSIVE SameAst(_, _)
SameAst(a, b) ==
  /\ a.t = b.t
  /\ CASE a.t = "cls" -> ToSet(a.s) = ToSet(b.s)
        [] a.t = "lit" -> a.syms = b.syms
        [] a.t \in {"cat", "alt"} -> Len(a.xs) = Len(b.xs) /\ \A i \in DOMAIN a.xs : SameAst(a.xs[i], b.xs[i])
        [] a.t = "rep" -> a.lo = b.lo /\ a.hi = b.hi /\ SameAst(a.x, b.x)
        [] OTHER -> TRUE
SameGraph(g, gr, init) == /\ Len(g.nodes) = gr.n /\ g.start = init
                          /\ ToSet(g.finals) = gr.fin /\ RecEdges(g) = ModEdges(gr)

(***************************************************************************)
(* initial state and group/run framing                                     *)
(***************************************************************************)
NoRun == [r |-> 0, firstbad |-> "", widen |-> 0]
Init == /\ l = 1 /\ pc = "idle" /\ G = [g |-> 0] /\ tcs = <<>> /\ run = NoRun
        /\ memo = <<>> /\ cnt = [x \in {} |-> 0]

TGroup == /\ IsEvent("group") /\ pc = "idle"
          /\ G' = Ev /\ tcs' = <<>> /\ memo' = <<>> /\ run' = NoRun
          /\ pc' = "tcs" /\ l' = l + 1 /\ cnt' = Bump({"groups"})

TTc == /\ IsEvent("tc") /\ pc = "tcs" /\ Ev.i = Len(tcs) + 1
       /\ tcs' = Append(tcs, Ev.cells)
       /\ l' = l + 1 /\ UNCHANGED <<pc, G, run, memo, cnt>>

TEnd == /\ IsEvent("end") /\ pc \in {"tcs", "done"}
        /\ pc' = "idle" /\ l' = l + 1 /\ UNCHANGED <<G, tcs, run, memo, cnt>>

TRun == /\ IsEvent("run") /\ pc \in {"tcs", "done"} /\ tcs # <<>>
        /\ run' = [r |-> Ev.r, cfg |-> Ev.cfg, firstbad |-> "", widen |-> 0,
                   judged |-> ~Ev.unstable,
                   pre |-> <<>>, cl |-> <<>>, glang |-> Nothing, elang |-> Nothing,
                   fallback |-> FALSE, exprs |-> 0,
                   out |-> [outcome |-> "none"], olang |-> Nothing, okhir |-> FALSE,
                   eps |-> FALSE, widened |-> FALSE, asbuilt |-> Nothing, mtrie |-> EmptyGr, presorted |-> FALSE,
                   mmin |-> EmptyGr @@ [init |-> 0]]
        /\ (IF "MONDEBUG" \in DOMAIN IOEnv THEN PrintT(<<"RUN", l>>) ELSE TRUE)
        /\ pc' = "run" /\ l' = l + 1 /\ cnt' = Bump({"runs"})
        /\ UNCHANGED <<G, tcs, memo>>

(***************************************************************************)
(* S1/S2                                                                   *)
(***************************************************************************)
TPre == /\ IsEvent("pre") /\ pc = "run" /\ Ev.r = run.r
        /\ LET c == run.cfg
               ok1 == PreOk(tcs, Ev.list, c)
               ok2 == ~run.judged \/ SameLang(ExpAst(Ev.list, c, G), ExpAst(tcs, c, G), G)
               ok3 == NoDup(Ev.list) /\ Ev.sorted
               \* C04: test cases that differ only by case collapse to one entry - judged only when every
               \* character's lower-casing keeps the count and is known to the engine (MC_Fold!Collapse)
               stable == \A i \in DOMAIN tcs : \A j \in DOMAIN tcs[i] : tcs[i][j].ls
               LowWord(t) == [j \in DOMAIN t |-> t[j].low[1]]
               ok4 == ~c.icase \/ ~stable \/ Cardinality({LowWord(tcs[i]) : i \in DOMAIN tcs}) = Len(Ev.list)
           IN /\ Judge(ok4, {"C04"}, "collapse", "")
              /\ Judge(ok1, IF c.icase THEN {"C04", "C01"} ELSE {"C01", "C02"}, "pre-set", "")
              /\ Judge(ok2, ExactProps(c), "pre-lang", "")
              \* order / duplicate-freeness of the internal list is Level-2 detail: a note, never a verdict
              /\ Judge(ok3, {"TOOL"}, "pre-not-canonical", "")
              /\ run' = [run EXCEPT !.pre = Ev.list, !.presorted = ok3, !.firstbad = FirstBad(ok1 /\ ok2, "pre")]
        /\ pc' = "pre" /\ l' = l + 1 /\ cnt' = Bump({"pre"})
        /\ UNCHANGED <<G, tcs, memo>>

(***************************************************************************)
(* S3-S5                                                                   *)
(***************************************************************************)
TCl0 == /\ IsEvent("cl") /\ pc = "pre" /\ Ev.phase = 0 /\ Ev.r = run.r
        /\ LET c == run.cfg
               ok == /\ Len(Ev.list) = Len(run.pre)
                     /\ \A i \in DOMAIN Ev.list : SegmentOk(Ev.list[i], run.pre[i], c, G)
               \* Level-2 conformance of S3: the recorded symbol lengths are those of the transcribed rule
               lens(cl) == [j \in DOMAIN cl |-> Len(cl[j].u)]
               same == /\ Len(Ev.list) = Len(run.pre)
                       /\ \A i \in DOMAIN Ev.list : lens(Ev.list[i]) = SegmentLens(run.pre[i])
           IN /\ Judge(ok, {"C16", "C01"}, "segment", "")
              /\ Judge(same, {"TOOL"}, "level2-drift-segment", "")
              /\ run' = [run EXCEPT !.cl = Ev.list, !.firstbad = FirstBad(ok, "segment")]
              /\ cnt' = Bump({"segment", IF same THEN "l2-seg-same" ELSE "l2-seg-diff"})
        /\ pc' = "cl0" /\ l' = l + 1
        /\ UNCHANGED <<G, tcs, memo>>

TCl1 == /\ IsEvent("cl") /\ pc = "cl0" /\ Ev.phase = 1 /\ Ev.r = run.r
        /\ LET c == run.cfg
               ok == \/ ~run.judged
                     \/ /\ Len(Ev.list) = Len(run.pre)
                        /\ \A i \in DOMAIN Ev.list : ClassConvOk(Ev.list[i], run.pre[i], c, G)
           IN /\ Judge(ok, {"C03", "C09", "C16"}, "classconv", "")
              /\ run' = [run EXCEPT !.cl = Ev.list, !.firstbad = FirstBad(ok, "classconv")]
        /\ pc' = "cl1" /\ l' = l + 1
        /\ cnt' = Bump(IF AnyClass(run.cfg) /\ run.judged THEN {"classconv"} ELSE {})
        /\ UNCHANGED <<G, tcs, memo>>

TCl2 == /\ IsEvent("cl") /\ pc = "cl1" /\ Ev.phase = 2 /\ Ev.r = run.r
        /\ LET c == run.cfg
               ok == /\ Len(Ev.list) = Len(run.cl)
                     /\ \A i \in DOMAIN Ev.list : RepConvOk(Ev.list[i], run.cl[i], G)
               okT == \A i \in DOMAIN Ev.list : ClusterThresholdsOk(Ev.list[i], c)
           IN /\ Judge(ok, {"C05", "C16"}, "repconv", "")
              /\ Judge(okT, {"C13"}, "cluster-thresholds", "")
              /\ run' = [run EXCEPT !.cl = Ev.list, !.firstbad = FirstBad(ok, "repconv")]
        /\ pc' = "cl2" /\ l' = l + 1
        /\ cnt' = Bump(IF run.cfg.rep THEN {"repconv"} ELSE {})
        /\ UNCHANGED <<G, tcs, memo>>

(***************************************************************************)
(* S6-S8                                                                   *)
(***************************************************************************)
TTrie == /\ IsEvent("trie") /\ pc \in {"cl2", "sc1"} /\ Ev.r = run.r
         /\ LET lang == DescGraph(Ev)
                cl == DescAst(ClustersAst(run.cl))
                okA == Acyclic(Ev)
                eq == okA /\ Same(lang, cl)
                \* Level-2 conformance is assessed on plain runs (the transcription identifies a symbol with its
                \* characters; under class conversion / (?i) the code's label order is not available) of bounded size
                l2 == ~AnyClass(run.cfg) /\ ~run.cfg.icase /\ Len(Ev.nodes) <= 24
                mtrie == IF l2 \/ (~eq /\ Ev.widen > 0) THEN BuildTrie(run.cl, AsBuilt) ELSE EmptyGr
                same == ~l2 \/ SameGraph(Ev, mtrie, 0)
                asb == IF ~eq /\ Ev.widen > 0 THEN DescGraph(AsGraph(mtrie, 0)) ELSE Nothing
                \* the known deviation is the AS-BUILT pipeline's: clusters inserted in the as-built order
                \* (sorted by byte length, then text) through the as-built insertion. Any other order is new.
                why == IF eq THEN "ok"
                       ELSE IF okA /\ Ev.widen > 0 /\ run.presorted /\ Same(lang, asb) THEN "widen" ELSE "no"
            IN /\ Judge(okA, {"C16"}, "trie-cyclic", "")
               /\ JudgeX(why, {"C16"} \cup (IF run.cfg.rep THEN {"C05"} ELSE {}), "trie")
               /\ Judge(same, {"TOOL"}, "level2-drift-trie", "")
               /\ run' = [run EXCEPT !.glang = lang, !.widen = Ev.widen, !.mtrie = mtrie,
                                     !.widened = (why = "widen"), !.asbuilt = asb,
                                     !.firstbad = FirstBad(why = "ok", "trie")]
               /\ cnt' = Bump({"trie"} \cup (IF l2 THEN {IF same THEN "l2-trie-same" ELSE "l2-trie-diff"} ELSE {})
                              \cup (IF Ev.widen > 0 THEN {"trie-widened"} ELSE {}))
         /\ pc' = IF pc = "cl2" THEN "trie" ELSE "trie2"
         /\ l' = l + 1
         /\ UNCHANGED <<G, tcs, memo>>

TMin == /\ IsEvent("min") /\ pc = "trie" /\ Ev.r = run.r
        /\ LET lang == DescGraph(Ev)
               okA == Acyclic(Ev)
               why == IF okA /\ Same(lang, run.glang) THEN "ok"
                      ELSE IF okA /\ HasEps(run.glang) /\ ~HasEps(lang) /\ SameNoEps(lang, run.glang)
                           THEN "eps-dropped" ELSE "no"
               okS == run.cfg.rep \/ MinShapeOk(Ev)
               l2 == ~AnyClass(run.cfg) /\ ~run.cfg.icase /\ run.mtrie.n > 1 /\ run.mtrie.n <= 24
               mmin == IF l2 THEN Minimize(run.mtrie, AsBuilt) ELSE EmptyGr @@ [init |-> 0]
               sameM == ~l2 \/ SameGraph(Ev, mmin, mmin.init)
           IN /\ Judge(okA, {"C16"}, "min-cyclic", "")
              /\ JudgeX(why, {"C16"}, "min-lang")
              /\ Judge(okS, {"C16"}, "min-shape", "")
              /\ Judge(sameM, {"TOOL"}, "level2-drift-min", "")
              /\ run' = [run EXCEPT !.glang = lang, !.eps = (why = "eps-dropped"), !.mmin = mmin,
                                    !.firstbad = FirstBad(why = "ok", "min")]
              /\ cnt' = Bump({"min"} \cup (IF l2 THEN {IF sameM THEN "l2-min-same" ELSE "l2-min-diff"} ELSE {})
                             \cup (IF run.cfg.rep THEN {} ELSE {"min-shape"}))
        /\ pc' = "min" /\ l' = l + 1
        /\ UNCHANGED <<G, tcs, memo>>

(***************************************************************************)
(* S9, S10                                                                 *)
(***************************************************************************)
TExpr == /\ IsEvent("expr") /\ pc \in {"min", "trie2"} /\ Ev.r = run.r
         /\ LET lang == DescAst(Ev.ast)
                why == IF ~TrimAst(Ev.ast) THEN "no" ELSE Expl(lang, run.glang)
                \* Level-2 conformance of state elimination (plain runs only: the transcription works on
                \* characters, class tokens and fold orbits are outside it)
                \* (with escaping a non-ASCII character is written \u{..} and no longer counts as a single code
                \* point in src/expression.rs is_single_codepoint; the transcription does not model that)
                plain == pc = "min" /\ ~AnyClass(run.cfg) /\ ~run.cfg.icase /\ ~run.cfg.escape
                         /\ run.mmin.n > 1 /\ run.mtrie.n <= 24
                sameE == ~plain \/ SameAst(Ev.ast, XToLang(ToExpr(run.mmin, run.mmin.init)))
            IN /\ JudgeX(why, {"C16"}, "expr")
               /\ Judge(sameE, {"TOOL"}, "level2-drift-expr", "")
               /\ run' = [run EXCEPT !.elang = lang, !.exprs = @ + 1,
                                     !.firstbad = FirstBad(why = "ok", "expr")]
               /\ cnt' = Bump({"expr"} \cup (IF plain THEN {IF sameE THEN "l2-expr-same" ELSE "l2-expr-diff"} ELSE {}))
         /\ pc' = IF pc = "min" THEN "expr" ELSE "expr2"
         /\ l' = l + 1
         /\ UNCHANGED <<G, tcs, memo>>

(* the self-check ("does a search of every test case return the whole test case?") is run by  *)
(* the code when the end anchor is disabled; Level 1 accepts it for any settings            *)
TSelfCheck == /\ IsEvent("selfcheck") /\ Ev.r = run.r
              /\ \/ (pc = "expr" /\ Ev.stage = 1)
                 \/ (pc = "expr2" /\ Ev.stage = 2)
              /\ ~Ev.ok
              /\ pc' = IF pc = "expr" THEN "sc1" ELSE "sc2"
              /\ l' = l + 1 /\ cnt' = Bump({"selfcheck-failed"})
              /\ UNCHANGED <<G, tcs, memo, run>>

TFallback == /\ IsEvent("fallback") /\ pc = "sc2" /\ Ev.r = run.r
             /\ run' = [run EXCEPT !.fallback = TRUE]
             /\ pc' = "fallback" /\ l' = l + 1 /\ cnt' = Bump({"fallback"})
             /\ UNCHANGED <<G, tcs, memo>>

TFinal == /\ IsEvent("final") /\ pc \in {"expr", "expr2", "fallback"} /\ Ev.r = run.r
          /\ LET lang == DescAst(Ev.ast)
                 why == IF ~TrimAst(Ev.ast) THEN "no" ELSE ExplFinal(lang, DescAst(ClustersAst(run.cl)))
             IN /\ JudgeX(why, {"C16"}, "final")
                /\ run' = [run EXCEPT !.elang = lang, !.firstbad = FirstBad(why = "ok", "final")]
          /\ pc' = "final" /\ l' = l + 1 /\ cnt' = Bump({"final"})
          /\ UNCHANGED <<G, tcs, memo>>

(***************************************************************************)
(* S11 and the listed properties on the result                             *)
(***************************************************************************)
CfgKey(c) == IF c.rep THEN c ELSE [c EXCEPT !.minrep = 1, !.minsub = 1]
MemoOf(c) == LET k == CfgKey(c)
                 S == {i \in DOMAIN memo : memo[i].cfg = k}
             IN IF S = {} THEN [found |-> FALSE]
                ELSE [found |-> TRUE, m |-> memo[CHOOSE i \in S : TRUE]]

EngineBound(c) == ~c.color /\ ~c.surr

(* differential properties: compare with the finished run whose settings differ in one option *)
TwinLang(c, opt, base, props, lang) ==
  LET m == MemoOf(base) IN
  IF c = base \/ ~m.found \/ ~m.m.haslang THEN TRUE
  ELSE LET eps == EpsAfterCheck(run.eps, run.cfg) \/ EpsAfterCheck(m.m.eps, m.m.cfg)
           w1 == ExplBy(lang, m.m.lang, eps, run.widened, run.asbuilt)
           \* the twin itself may be the widened one
           w2 == IF w1 # "no" THEN w1 ELSE ExplBy(m.m.lang, lang, eps, m.m.widened, m.m.asbuilt)
       IN JudgeX(w2, props, "twin-" \o opt)

TOutPanic ==
  /\ IsEvent("out") /\ pc # "idle" /\ pc # "tcs" /\ pc # "done" /\ Ev.r = run.r
  /\ Ev.outcome = "panic"
  /\ Judge(FALSE, {"C07"} \cup (IF EngineBound(run.cfg) THEN {"C01"} ELSE {}), "panic", Ev.msg)
  /\ run' = [run EXCEPT !.out = Ev]
  /\ memo' = memo
  /\ pc' = "done" /\ l' = l + 1 /\ cnt' = Bump({"out", "panic"})
  /\ UNCHANGED <<G, tcs>>

TOut ==
  /\ IsEvent("out") /\ pc = "final" /\ Ev.r = run.r /\ Ev.outcome = "ok"
  /\ LET c == run.cfg
         o == Ev
         parsed == o.engine /\ o.compiles
         hirok == parsed /\ WellFormed(o.hir) /\ AnchorsOnlyAtEnds(o.hir) /\ TrimAst(o.hir)
         judged == run.judged /\ hirok
         lang == IF hirok THEN DescAst(o.hir) ELSE Nothing
         okPrint == ~hirok \/ Same(lang, run.elang)
         whyExact == IF ~judged THEN "ok" ELSE ExplFinal(lang, DescAst(ExpAst(tcs, c, G)))
         whySound == IF ~judged THEN "ok"
                     ELSE ExplTcs({i \in DOMAIN tcs : ~Accepts(lang, TheWord(tcs[i]))})
         m == MemoOf(c)
     \* a pattern the engine rejects denotes no language: soundness and the exactness property of these settings fail
     IN /\ Judge(~o.engine \/ o.compiles, {"C07"} \cup (IF EngineBound(c) THEN {"C01"} \cup ExactProps(c) ELSE {})
                                                   \cup (IF EngineBound(c) /\ (c.verbose \/ c.capture \/ c.escape) THEN {"C06"} ELSE {}),
                 "invalid", IF Has(o, "msg") THEN o.msg ELSE "")
        /\ Judge(~parsed \/ hirok, {"TOOL"}, "hir-outside-fragment", "")
        /\ Judge(okPrint, {"C16", "C06"}, "print", "")
        /\ JudgeX(whyExact, ExactProps(c), "exact")
        /\ JudgeX(whySound, {"C01"}, "sound")
        /\ Judge(~parsed \/ FlagsOk(o, c),
                 (IF c.icase \/ HasI(o) THEN {"C04"} ELSE {}) \cup {"C06"}, "flags", o.flags)
        /\ Judge(~parsed \/ AnchorsOk(o, c), {"C08"}, "anchors", "")
        /\ Judge(~parsed \/ GroupsOk(o, c), {"C06"}, "groups", "")
        /\ Judge(~parsed \/ CountedOk(o, c), {"C13"}, "counted", "")
        /\ Judge(~c.escape \/ (o.ascii /\ EscWellFormed(o.toks, c.surr)), {"C11"}, "escape-form", "")
        \* C10: same set, same settings => same string
        /\ Judge(~m.found \/ m.m.sid = o.sid, {"C10"}, "nondeterministic", "")
        \* differential properties
        /\ IF ~hirok THEN TRUE ELSE
             /\ TwinLang(c, "rep", [c EXCEPT !.rep = FALSE, !.minrep = 1, !.minsub = 1], {"C05"}, lang)
             /\ TwinLang(c, "verbose", [c EXCEPT !.verbose = FALSE], {"C06"}, lang)
             /\ TwinLang(c, "capture", [c EXCEPT !.capture = FALSE], {"C06"}, lang)
             /\ TwinLang(c, "escape", [c EXCEPT !.escape = FALSE, !.surr = FALSE],
                         IF c.surr THEN {"C11"} ELSE {"C06", "C11"}, lang)
             /\ TwinLang(c, "anchors", [c EXCEPT !.nostart = FALSE, !.noend = FALSE], {"C08"}, lang)
        \* C15: stripping the colour codes gives the uncoloured output
        /\ IF c.color /\ Has(o, "cps")
           THEN LET b == MemoOf([c EXCEPT !.color = FALSE]) IN
                IF b.found /\ b.m.cps # <<>>
                THEN Judge(StripSGR(o.cps) = b.m.cps, {"C15"}, "sgr", "")
                ELSE TRUE
           ELSE TRUE
        /\ run' = [run EXCEPT !.out = o, !.olang = lang, !.okhir = hirok,
                              !.firstbad = FirstBad(okPrint, "print")]
        /\ memo' = IF m.found THEN memo
                   ELSE Append(memo, [cfg |-> CfgKey(c), sid |-> o.sid,
                                      haslang |-> hirok, lang |-> lang, eps |-> run.eps,
                                      widened |-> run.widened, asbuilt |-> run.asbuilt,
                                      cps |-> IF Has(o, "cps") THEN o.cps ELSE <<>>])
        /\ cnt' = Bump({"out"} \cup (IF judged THEN {"judged"} ELSE {"unjudged"})
                       \cup (IF c.escape THEN {"escape-form"} ELSE {})
                       \cup (IF m.found THEN {"determinism-pairs"} ELSE {})
                       \cup (IF c.color /\ Has(o, "cps") THEN {"sgr"} ELSE {}))
  /\ pc' = IF Ev.engine /\ Ev.compiles THEN "out" ELSE "done"
  /\ l' = l + 1
  /\ UNCHANGED <<G, tcs>>

(***************************************************************************)
(* observations of the real regex engine on the real output                *)
(***************************************************************************)
TObs ==
  /\ IsEvent("obs") /\ pc = "out" /\ Ev.r = run.r
  /\ LET c == run.cfg
         o == run.out
         open == c.nostart \/ c.noend
         Whole(i) == <<0, Len(tcs[i])>>
         \* what the real engine observed ...
         engFull == {i \in DOMAIN tcs : ~Ev.full[i]}
         engFind == IF open THEN {i \in DOMAIN tcs : Ev.find[i] # Whole(i)} ELSE {}
         \* ... and what the specification's semantics (Lang!Accepts, Lang!Find) says about the
         \* parsed pattern.  A verdict needs BOTH to agree: a disagreement is a defect of the
         \* engine or of the model (e.g. regex 1.10.6 returns (3,4) for "(\u{1fd3}cc|c)" on
         \* "\u{1fd3}cc"), never of grex, and is reported as a model-fidelity note.
         modFull == IF run.okhir THEN {i \in DOMAIN tcs : ~Accepts(run.olang, TheWord(tcs[i]))} ELSE engFull
         modFind == IF ~open THEN {}
                    ELSE IF run.okhir THEN {i \in DOMAIN tcs : Find(o.hir, TheWord(tcs[i])) # Whole(i)}
                    ELSE engFind
     IN /\ JudgeX(ExplTcs(engFull \cap modFull), {"C01"}, "engine-full-match")
        /\ JudgeX(ExplTcs(engFind \cap modFind), {"C08"}, "find-span")
        /\ Judge(engFind = modFind, {"TOOL"}, "find-model-mismatch", "")
        /\ Judge(engFull = modFull, {"TOOL"}, "membership-model-mismatch", "")
        /\ cnt' = Bump({"obs"} \cup (IF open THEN {"find-open"} ELSE {}))
  /\ pc' = "done" /\ l' = l + 1
  /\ UNCHANGED <<G, tcs, run, memo>>

(***************************************************************************)
(* S0 and the front ends: builder histories (C07 C10 C14 C17)              *)
(***************************************************************************)
FrontProp(front) == CASE front = "rust" -> "C10" [] front = "py" -> "C14" [] front = "wasm" -> "C17"
(* a build whose result differs from the library's for the settings the history denotes also breaks the   *)
(* properties that are about those settings                                                              *)
SettingProps(c) == (IF c.rep THEN {"C13", "C05"} ELSE {}) \cup (IF AnyClass(c) THEN {"C03"} ELSE {})
                   \cup (IF c.icase THEN {"C04"} ELSE {}) \cup (IF c.nostart \/ c.noend THEN {"C08"} ELSE {})
                   \cup (IF c.escape THEN {"C11"} ELSE {})
                   \cup (IF c.escape \/ c.verbose \/ c.capture THEN {"C06"} ELSE {})

EmitHX(props, kind, h, k, extra, why) ==
  PrintT(ToJson([verdict |-> kind, props |-> props, g |-> 0, r |-> 0, h |-> h, k |-> k,
                 first |-> kind, widen |-> 0, explained |-> why, extra |-> extra]))
EmitH(props, kind, h, k, extra) == EmitHX(props, kind, h, k, extra, "")
JudgeH(ok, props, kind, h, k, extra) == IF ok THEN TRUE ELSE EmitH(props, kind, h, k, extra)

ToCfg(c) == [f \in DOMAIN DefaultCfg |-> c[f]]
MemoFind(mm, key) == LET S == {i \in DOMAIN mm : mm[i].key = key} IN
                     IF S = {} THEN 0 ELSE mm[CHOOSE i \in S : TRUE].sid

RECURSIVE HistFold(_, _, _, _, _, _)
HistFold(front, h, ops, k, objs, mm) ==
  IF k > Len(ops) THEN TRUE
  ELSE LET op == ops[k]
           known == op.op = "new" \/ op.o \in DOMAIN objs
       IN IF ~known THEN JudgeH(FALSE, {"TOOL"}, "history-unknown-object", h, k, "")
          ELSE LET r == Step(front, objs, op)
                   P == FrontProp(front)
                   okOutcome == op.ok = r.ok /\ (r.ok \/ op.msg = r.msg)
                   isBuild == op.op = "build" /\ op.ok
                   key == IF isBuild THEN <<objs[op.o].set, CfgKeyB(r.cfg)>> ELSE <<>>
                   prev == IF isBuild THEN MemoFind(mm, key) ELSE 0
                   mm2 == IF isBuild /\ prev = 0 THEN Append(mm, [key |-> key, sid |-> op.sid]) ELSE mm
               IN /\ JudgeH(okOutcome, {"C07", P}, "history-outcome", h, k, op.msg)
                  /\ JudgeH(AliasOk(front, op), {P}, "history-alias", h, k, "")
                  /\ (IF ~isBuild THEN TRUE ELSE
                        /\ JudgeH(ToCfg(op.cfg) = r.cfg, {"TOOL"}, "history-cfg-belief", h, k, "")
                        /\ JudgeH(prev = 0 \/ prev = op.sid, {P, "C10"}, "history-nondeterministic", h, k, "")
                        /\ (IF front = "py"
                            THEN JudgeH(PyRewrite(op.libcps, r.cfg) = op.outcps, {"C14"}, "py-rewrite", h, k, "")
                                 /\ JudgeH(~r.cfg.escape \/ ~HasBraceEscapeFrom(op.outcps, 1), {"C14"}, "py-brace-escape-left", h, k, "")
                                 /\ JudgeH(op.compiles, {"C14"}, "py-compile", h, k, "")
                                 /\ (IF AnyClass(r.cfg) \/ r.cfg.surr \/ op.fullmatch THEN TRUE
                                     \* known deviation D1: only the empty test case is not matched
                                     ELSE EmitHX({"C14"}, "py-fullmatch", h, k, "",
                                                 IF op.failed # <<>> /\ \A i \in DOMAIN op.failed : op.failed[i] = <<>>
                                                 THEN "eps-dropped" ELSE ""))
                            ELSE JudgeH(op.sid = op.libsid, {P} \cup (IF front = "rust" THEN SettingProps(r.cfg) ELSE {}),
                                        "front-differs-from-library", h, k, ""))
                        \* C01 / C07 on every build of a history whose settings (as the SPECIFICATION derives them from the
                        \* history) target the regex crate: the pattern compiles and matches every test case as a whole
                        /\ (IF front # "rust" \/ r.cfg.surr \/ r.cfg.color THEN TRUE
                            ELSE /\ JudgeH(op.compiles, {"C01", "C07"}, "history-invalid", h, k, "")
                                 /\ (IF op.failed = 0 THEN TRUE
                                     ELSE EmitHX({"C01"}, "history-unsound", h, k, "",
                                                 IF op.failed_eps THEN "eps-dropped" ELSE ""))))
                  /\ HistFold(front, h, ops, k + 1, r.objs, mm2)

THist == /\ IsEvent("hist") /\ pc = "idle"
         /\ HistFold(Ev.front, Ev.h, Ev.ops, 1, [x \in {} |-> 0], <<>>)
         /\ l' = l + 1 /\ cnt' = Bump({"hist-" \o Ev.front})
         /\ UNCHANGED <<pc, G, tcs, run, memo>>

TMulti == /\ IsEvent("multi") /\ pc = "idle"
          /\ JudgeH(\A i \in DOMAIN Ev.sids : Ev.sids[i] = Ev.sids[1], {"C10"}, "multi-" \o Ev.what, Ev.h, 0, "")
          /\ l' = l + 1 /\ cnt' = Bump({"multi-" \o Ev.what})
          /\ UNCHANGED <<pc, G, tcs, run, memo>>

(***************************************************************************)
(* the command-line tool (C12)                                             *)
(***************************************************************************)
TCli ==
  /\ IsEvent("cli") /\ pc = "idle"
  /\ LET e == Ev
         x == CliExpect(ToSet(e.flags), e.minrep, e.minsub, e.channel, e.args, e.content, e.readable, e.utf8)
         graceful == e.exit # 0 /\ e.exit # 101 /\ ~e.panicked /\ e.stderr_lines >= 1
     IN CASE x.kind = "usage" -> JudgeH(graceful, {"C12"}, "cli-usage-error", e.h, 0, "")
          [] x.kind = "error" -> JudgeH(graceful /\ e.stdout = <<>>, {"C12"}, "cli-error-path", e.h, 0, "")
          [] x.kind = "ok" ->
               /\ JudgeH(e.believed /\ ToCfg(e.cfg) = x.cfg /\ e.tcs = x.tcs, {"TOOL"}, "cli-belief", e.h, 0, "")
               /\ JudgeH(e.exit = 0 /\ ~e.panicked, {"C12"}, "cli-exit", e.h, 0, "")
               \* a CLI result that differs from the library's for the settings the flags denote also breaks the
               \* properties that are about those settings (e.g. an anchor the flags disabled is printed: C08)
               /\ JudgeH(e.libok /\ e.stdout = e.lib \o <<10>>, {"C12"} \cup SettingProps(x.cfg), "cli-output", e.h, 0, "")
  /\ l' = l + 1 /\ cnt' = Bump({"cli"})
  /\ UNCHANGED <<pc, G, tcs, run, memo>>

(***************************************************************************)
(* C11 sweep: every non-ASCII scalar value alone, escaped                  *)
(***************************************************************************)
TEscSweep ==
  /\ IsEvent("escsweep") /\ pc = "idle"
  /\ LET bad == {i \in DOMAIN Ev.items :
                  Ev.items[i][2] # <<<<0, 94>>>> \o EscTok(Ev.items[i][1], Ev.surr) \o <<<<0, 36>>>>}
     IN IF bad = {} THEN TRUE
        ELSE EmitH({"C11"}, "escape-token", Ev.h, Ev.items[CHOOSE i \in bad : TRUE][1], "")
  /\ l' = l + 1 /\ cnt' = Bump({"escsweep-blocks"})
  /\ UNCHANGED <<pc, G, tcs, run, memo>>

(***************************************************************************)
(* C07 on large inputs (one fresh process each): a panic or an abort is a  *)
(* violation, running out of time is inconclusive; an engine-bound result  *)
(* must parse.                                                             *)
(***************************************************************************)
TLarge ==
  /\ IsEvent("large") /\ pc = "idle"
  /\ JudgeH(Ev.outcome \in {"ok", "timeout"}, {"C07"}, "large-" \o Ev.outcome, Ev.h, 0, "")
  /\ JudgeH(Ev.outcome # "ok" \/ ~Ev.engine \/ Ev.valid, {"C07"}, "large-invalid", Ev.h, 0, "")
  /\ l' = l + 1 /\ cnt' = Bump({"large", "large-" \o Ev.outcome})
  /\ UNCHANGED <<pc, G, tcs, run, memo>>

Next == \/ TLarge \/ TEscSweep \/ THist \/ TMulti \/ TCli \/ TGroup \/ TTc \/ TEnd \/ TRun \/ TPre \/ TCl0 \/ TCl1 \/ TCl2 \/ TTrie \/ TMin
        \/ TExpr \/ TSelfCheck \/ TFallback \/ TFinal \/ TOutPanic \/ TOut \/ TObs

Spec == Init /\ [][Next]_vars

(***************************************************************************)
(* acceptance: the whole trace was consumed                                *)
(***************************************************************************)
Accepted ==
  LET d == TLCGet("stats").diameter IN
  IF d - 1 = Len(Rec)
  THEN PrintT(ToJson([accepted |-> TRUE, events |-> Len(Rec)]))
  ELSE PrintT(ToJson([accepted |-> FALSE, events |-> Len(Rec), consumed |-> d - 1,
                      stuck_at |-> IF d <= Len(Rec) THEN Rec[d].ev ELSE "?"]))

(* counters are printed from the last state *)
Counters == IF l = Len(Rec) + 1 THEN PrintT(ToJson([counters |-> cnt])) ELSE TRUE
=============================================================================

------------------------------- MODULE Builder -------------------------------
(***************************************************************************)
(* S0: the builder protocol and the three front ends as object machines.   *)
(*                                                                         *)
(* An object is [set |-> id of the test-case SET it was created from,      *)
(*               cfg |-> settings record].                                 *)
(* Setters only accumulate: booleans go FALSE -> TRUE, the two thresholds  *)
(* and the surrogate flag are last-writer-wins (src/builder.rs).           *)
(* build() does not change the settings; it normalises the object's list   *)
(* in place, which must not be observable (C10).                           *)
(*                                                                         *)
(* Front ends differ in what a setter call RETURNS:                        *)
(*   rust   &mut Self: the receiver itself                                 *)
(*   py     the same Python object (alias)          src/python.rs          *)
(*   wasm   mutates the receiver AND returns a copy src/wasm.rs            *)
(* and in how errors surface (panic / ValueError / thrown string).         *)
(***************************************************************************)
EXTENDS Naturals, Integers, Sequences, FiniteSets

DefaultCfg == [digit |-> FALSE, nondigit |-> FALSE, space |-> FALSE, nonspace |-> FALSE,
               word |-> FALSE, nonword |-> FALSE, rep |-> FALSE, icase |-> FALSE,
               capture |-> FALSE, escape |-> FALSE, surr |-> FALSE, verbose |-> FALSE,
               nostart |-> FALSE, noend |-> FALSE, color |-> FALSE, minrep |-> 1, minsub |-> 1]

BoolSetters == {"digit", "nondigit", "space", "nonspace", "word", "nonword", "rep", "icase",
                "capture", "verbose", "nostart", "noend", "color"}

MsgNoTestCases == "No test cases have been provided for regular expression generation"
MsgMinRep      == "Quantity of minimum repetitions must be greater than zero"
MsgMinSub      == "Minimum substring length must be greater than zero"

(* Effect of one setter call: [ok, cfg, msg] *)
Effect(c, name, arg) ==
  CASE name \in BoolSetters -> [ok |-> TRUE, cfg |-> [c EXCEPT ![name] = TRUE], msg |-> ""]
    [] name = "noanchors"   -> [ok |-> TRUE, cfg |-> [c EXCEPT !.nostart = TRUE, !.noend = TRUE], msg |-> ""]
    [] name = "escape"      -> [ok |-> TRUE, cfg |-> [c EXCEPT !.escape = TRUE, !.surr = (arg = 1)], msg |-> ""]
    [] name = "minrep"      -> IF arg >= 1 THEN [ok |-> TRUE, cfg |-> [c EXCEPT !.minrep = arg], msg |-> ""]
                               ELSE [ok |-> FALSE, cfg |-> c, msg |-> MsgMinRep]
    [] name = "minsub"      -> IF arg >= 1 THEN [ok |-> TRUE, cfg |-> [c EXCEPT !.minsub = arg], msg |-> ""]
                               ELSE [ok |-> FALSE, cfg |-> c, msg |-> MsgMinSub]

(***************************************************************************)
(* One step of the object machine.  objs: function from object ids to      *)
(* objects (DOMAIN = objects created so far).  op is a record              *)
(*   [op |-> "new",   o, set, n]       n = number of test cases given      *)
(*   [op |-> "set",   o, name, arg, ret]   ret = id bound to the result    *)
(*   [op |-> "clone", o, ret]                                              *)
(*   [op |-> "build", o]                                                   *)
(* Result: [objs, ok, msg, cfg (for build)]                                *)
(***************************************************************************)
Put(objs, o, v) == [x \in DOMAIN objs \cup {o} |-> IF x = o THEN v ELSE objs[x]]

Step(front, objs, op) ==
  CASE op.op = "new" ->
         IF op.n = 0 THEN [objs |-> objs, ok |-> FALSE, msg |-> MsgNoTestCases, cfg |-> DefaultCfg]
         ELSE [objs |-> Put(objs, op.o, [set |-> op.set, cfg |-> DefaultCfg]),
               ok |-> TRUE, msg |-> "", cfg |-> DefaultCfg]
    [] op.op = "clone" ->
         [objs |-> Put(objs, op.ret, objs[op.o]), ok |-> TRUE, msg |-> "", cfg |-> objs[op.o].cfg]
    [] op.op = "build" ->
         [objs |-> objs, ok |-> TRUE, msg |-> "", cfg |-> objs[op.o].cfg]
    [] op.op = "set" ->
         LET e == Effect(objs[op.o].cfg, op.name, op.arg) IN
         IF ~e.ok THEN [objs |-> objs, ok |-> FALSE, msg |-> e.msg, cfg |-> objs[op.o].cfg]
         ELSE LET updated == [objs[op.o] EXCEPT !.cfg = e.cfg]
                  o1 == Put(objs, op.o, updated)
              IN [objs |-> (IF front = "wasm" THEN Put(o1, op.ret, updated) ELSE o1),
                  ok |-> TRUE, msg |-> "", cfg |-> e.cfg]

(* In the rust and py front ends the value a setter returns IS the receiver: the harness must   *)
(* have bound ret to the same object.  In wasm it is a fresh copy.                              *)
AliasOk(front, op) == op.op # "set" \/ front = "wasm" \/ op.ret = op.o

(***************************************************************************)
(* The library as a function: Lib(set, cfg) is whatever the first build    *)
(* with that set and those settings returned; every later build with the   *)
(* same pair must return the same string (C10), whatever the history.      *)
(***************************************************************************)
CfgKeyB(c) == IF c.rep THEN c ELSE [c EXCEPT !.minrep = 1, !.minsub = 1]
=============================================================================

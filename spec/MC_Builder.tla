----------------------------- MODULE MC_Builder ------------------------------
(***************************************************************************)
(* Bounded model of S0 (Builder.tla): all histories of at most MaxOps      *)
(* operations (new / setter / clone / build) on up to MaxObjs objects, for *)
(* each of the three front ends.  Invariants:                              *)
(*   - settings only accumulate (booleans never fall back to FALSE)        *)
(*   - an operation fails only where documented (empty list, threshold 0)  *)
(*   - C10: the settings a build sees depend only on the SET of setter     *)
(*     calls applied along the object's ancestry (last-writer-wins for     *)
(*     the three non-boolean settings), not on interleaved builds          *)
(*   - rust/py: a setter's result is the receiver; wasm: receiver is       *)
(*     mutated AND the result is an independent copy                       *)
(* Every history ending in a build prints a REPLAY line; the harness runs  *)
(* it on the real RegExpBuilder / Python class / wasm wrapper.             *)
(***************************************************************************)
EXTENDS Builder, TLC, Json

CONSTANTS MaxOps, MaxObjs, Front

Names == {"digit", "rep", "escape", "minrep", "noanchors", "nostart"}
Args(name) == CASE name = "escape" -> {0, 1} [] name = "minrep" -> {0, 2} [] OTHER -> {0}

VARIABLES objs, hist, last
vars == <<objs, hist, last>>

Init == objs = [x \in {} |-> 0] /\ hist = <<>> /\ last = [ok |-> TRUE, msg |-> "", cfg |-> DefaultCfg]

Fresh == Cardinality(DOMAIN objs) + 1
Do(op) == LET r == Step(Front, objs, op) IN
          /\ objs' = r.objs /\ hist' = Append(hist, op) /\ last' = [ok |-> r.ok, msg |-> r.msg, cfg |-> r.cfg]

New == /\ Cardinality(DOMAIN objs) < MaxObjs
       /\ (Front = "rust" \/ hist = <<>>)          \* py / wasm histories start from one object
       /\ \E n \in {0, 2} : Do([op |-> "new", o |-> Fresh, set |-> 1, n |-> n])
Set == \E o \in DOMAIN objs, name \in Names : \E arg \in Args(name) :
         /\ (Front # "wasm" \/ Cardinality(DOMAIN objs) < MaxObjs)
         /\ Do([op |-> "set", o |-> o, name |-> name, arg |-> arg,
                ret |-> IF Front = "wasm" THEN Fresh ELSE o])
Clone == /\ Front = "rust" /\ Cardinality(DOMAIN objs) < MaxObjs
         /\ \E o \in DOMAIN objs : Do([op |-> "clone", o |-> o, ret |-> Fresh])
Build == \E o \in DOMAIN objs : Do([op |-> "build", o |-> o])

Next == /\ Len(hist) < MaxOps
        /\ (New \/ Set \/ Clone \/ Build)
Spec == Init /\ [][Next]_vars

(* settings only accumulate *)
Accumulate == [][\A o \in DOMAIN objs : \A f \in BoolSetters \cup {"escape"} :
                    (o \in DOMAIN objs' /\ objs[o].cfg[f]) => objs'[o].cfg[f]]_vars

(* failures only where documented *)
OnlyDocumentedFailures ==
  hist # <<>> =>
    LET op == hist[Len(hist)] IN
    ~last.ok <=> \/ (op.op = "new" /\ op.n = 0)
                 \/ (op.op = "set" /\ op.name \in {"minrep", "minsub"} /\ op.arg < 1)
DocumentedMessages ==
  ~last.ok => last.msg \in {MsgNoTestCases, MsgMinRep, MsgMinSub}

(* the settings of an object are a function of the setter calls along its ancestry *)
RECURSIVE Ancestry(_, _)
Ancestry(o, k) ==   \* successful setter calls that shaped object o, in order, looking at hist[1..k]
  IF k = 0 THEN <<>>
  ELSE LET op == hist[k] IN
       IF op.op = "set" /\ Effect(DefaultCfg, op.name, op.arg).ok /\ op.o = o
       THEN Append(Ancestry(o, k - 1), op)
       ELSE IF op.op = "set" /\ Effect(DefaultCfg, op.name, op.arg).ok /\ Front = "wasm" /\ op.ret = o
       THEN Append(Ancestry(op.o, k - 1), op)
       ELSE IF op.op = "clone" /\ op.ret = o THEN Ancestry(op.o, k - 1)
       ELSE Ancestry(o, k - 1)
RECURSIVE ApplyAll(_, _)
ApplyAll(c, ops) == IF ops = <<>> THEN c ELSE ApplyAll(Effect(c, Head(ops).name, Head(ops).arg).cfg, Tail(ops))
CfgIsFunctionOfAncestry ==
  \A o \in DOMAIN objs : objs[o].cfg = ApplyAll(DefaultCfg, Ancestry(o, Len(hist)))

Replay == (hist # <<>> /\ hist[Len(hist)].op = "build") =>
            PrintT(ToJson([replay |-> "history", front |-> Front, ops |-> hist, cfg |-> last.cfg]))
=============================================================================
